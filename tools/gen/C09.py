"""C09: vocabulary rewrite tables, shortcut table, the order of the normalisation steps, the vocabulary of the parsing query, and the
shapes of the hand-modelled normalisation / delimiter / YARRRML functions  ->  Gen/Vocab.lean, Gen/NormOrder.lean

Read from mapping_parser.py (AST):
  * `_r2rml_to_rml`: the two dict literals assigned to `r2rml_to_rml_dict` (the first is applied with `replace_predicates_in_graph`, the
    second with `replace_objects_in_graph`, each in dict order), the trailing `replace_objects_in_graph(…, A, B)` call;
  * `_rml_legacy_to_rml`: the dict literal and its loop;
  * `_expand_constant_shortcut_properties`: the dict literal `constant_shortcuts_dict` and the loop that consumes it;
  * `_parse_data_source_mapping_files`: the sequence of `mapping_graph = _step(mapping_graph)` statements after the loading loop;
  * the step functions, `_remove_delimiters_from_mappings` and its three helpers, `yarrrml._template_to_rml` / `_add_template`:
    recognised by the hash of their alpha-normalised AST (local names replaced by their order of first binding, docstrings dropped),
    so renaming a local does not matter; anything else is a translation failure;
  * mapping_constants.RML_PARSING_QUERY: `SELECT DISTINCT`, the `rml:` terms it mentions, the FILTER … IN lists.
A name that does not resolve to a string constant, a dict that is not a literal, an unknown step function or an unknown shape is a
translation failure.
"""
import ast
import copy
import hashlib
import importlib
import os
import re

from extract import HEADER, write_if_changed


def lean_str(s):
    """explicit character list: `"…".toList` is slow to evaluate in the kernel (UTF-8 decoding), and these tables are what the
    `decide +kernel` side conditions run over"""
    if s == '':
        return '([] : List Char)'
    def ch(c):
        if 32 <= ord(c) < 127 and c not in "'\\":
            return f"'{c}'"
        return f'Char.ofNat {ord(c)}'
    return '[' + ','.join(ch(c) for c in s) + ']'


def lean_pairs(pairs):
    return '[\n  ' + ',\n  '.join(f'({lean_str(a)}, {lean_str(b)})' for a, b in pairs) + '\n]'


MP = 'mapping/mapping_parser.py'
YA = 'mapping/yarrrml.py'

STEP_OF = {
    '_r2rml_to_rml': 'r2rmlToRml', '_rml_legacy_to_rml': 'legacyToRml', '_rdf_class_to_pom': 'classToPom',
    '_expand_constant_shortcut_properties': 'expandShortcuts', '_subject_graph_maps_to_pom': 'subjectGraphsToPom',
    '_complete_pom_with_default_graph': 'defaultGraph', '_complete_termtypes': 'termtypes',
    '_complete_triples_map_class': 'tmClass', '_validate_termtypes': 'validate',
}


# ----------------------------------------------------------------------------------------------------
# alpha-normalised shapes
# ----------------------------------------------------------------------------------------------------

def alpha_hash(fn):
    """hash of the function with docstring dropped and every locally bound name replaced by its order of first binding"""
    fn = copy.deepcopy(fn)
    if fn.body and isinstance(fn.body[0], ast.Expr) and isinstance(getattr(fn.body[0], 'value', None), ast.Constant) \
            and isinstance(fn.body[0].value.value, str):
        fn.body = fn.body[1:] or [ast.Pass()]
    bound = {}
    for a in fn.args.args:
        bound.setdefault(a.arg, f'_v{len(bound)}')

    class Collect(ast.NodeVisitor):
        def visit_Name(self, n):
            if isinstance(n.ctx, ast.Store):
                bound.setdefault(n.id, f'_v{len(bound)}')
    Collect().visit(fn)

    class Ren(ast.NodeTransformer):
        def visit_Name(self, n):
            if n.id in bound:
                n.id = bound[n.id]
            return n

        def visit_arg(self, n):
            if n.arg in bound:
                n.arg = bound[n.arg]
            return n
    fn = Ren().visit(fn)
    fn.name = '_f'
    return hashlib.sha256(ast.dump(fn, annotate_fields=False, include_attributes=False).encode()).hexdigest()[:16]


# alpha hashes of the hand-modelled functions on the unchanged tree (and, where a `fix:` proposal exists, of the repaired function)
KNOWN_SHAPES = {
    '_rdf_class_to_pom': {'b31816e70b5936f6': 'asIs'},
    '_subject_graph_maps_to_pom': {'3c0b1621b650328a': 'asIs'},
    '_complete_pom_with_default_graph': {'dd7fda3a5fa1a60c': 'asIs'},
    '_complete_termtypes': {'8ca2556a248e441e': 'asIs'},
    '_complete_triples_map_class': {'ce7ac9f5e45d824f': 'asIs'},
    '_is_delimited_identifier': {'7ab0aef53a889040': 'asIs'},
    '_get_undelimited_identifier': {'6a06bb312914fade': 'asIs'},
    '_get_valid_template_identifiers': {'d8701739c806518f': 'asIs'},
    '_remove_delimiters_from_mappings': {'f2b7dd642cc9f734': 'asIs'},
    'replace_predicates_in_graph': {'ce4011bd3d99ccf7': 'asIs'},
    'replace_objects_in_graph': {'c89c0632f4eeeb7a': 'asIs'},
    # yarrrml: kind of `_template_to_rml` (does it escape braces of the literal text?) and of `_add_template`
    # (when is a template taken for a single reference?)
    '_template_to_rml': {'c76534420a332778': 'raw', 'd184b31bb4fc3d0c': 'escaped'},
    '_add_template': {'d249833363e386c9': 'startsCount', 'daaffe711eeb82b9': 'wholeRef'},
}


# whitespace- and comment-normalised hashes of RML_PARSING_QUERY: how the object maps of a predicate-object map are delivered --
# by two consecutive OPTIONAL blocks over ?object_map (the second, for rml:parentTriplesMap, cannot fire once the first has bound the
# variable) or by one OPTIONAL over the UNION of the two patterns (fix proposal C09_F3)
KNOWN_QUERIES = {'4d060fe3a2f1132c': 'consecutiveOptionals', '9183dc4a18cb3162': 'union'}


def resolve(node, env, failures, what):
    if isinstance(node, ast.Name) and isinstance(env.get(node.id), str):
        return env[node.id]
    if isinstance(node, ast.Constant) and isinstance(node.value, str):
        return node.value
    if isinstance(node, ast.Attribute) and ast.unparse(node) == 'rdflib.RDF.type':
        return 'http://www.w3.org/1999/02/22-rdf-syntax-ns#type'
    failures.append(f'{what}: unresolvable {ast.unparse(node)[:60]}')
    return None


def dict_pairs(node, env, failures, what):
    """ordered (key, value) pairs of a dict literal with Python's semantics for repeated keys"""
    if not isinstance(node, ast.Dict):
        failures.append(f'{what}: not a dict literal')
        return []
    pairs, seen = [], {}
    for k, v in zip(node.keys, node.values):
        if k is None:
            failures.append(f'{what}: dict unpacking')
            continue
        a, b = resolve(k, env, failures, what), resolve(v, env, failures, what)
        if a is None or b is None:
            continue
        if a in seen:
            pairs[seen[a]] = (a, b)
        else:
            seen[a] = len(pairs)
            pairs.append((a, b))
    return pairs


def _norm(node):
    return ' '.join(ast.unparse(node).split())


def read_rewrite_function(fn, env, failures, dict_name):
    """statements of the form  <dict_name> = {…}  followed by  for a, b in <dict_name>.items(): g = replace_X_in_graph(g, a, b)
    plus single calls  g = replace_X_in_graph(g, A, B).  Returns the ordered list of (kind, old, new)."""
    ops = []
    current = None
    for st in fn.body:
        if isinstance(st, ast.Assign) and len(st.targets) == 1 and isinstance(st.targets[0], ast.Name) and st.targets[0].id == dict_name:
            current = dict_pairs(st.value, env, failures, f'{fn.name}.{dict_name}')
        elif isinstance(st, ast.For) and _norm(st.iter) == f'{dict_name}.items()':
            body = [_norm(b) for b in st.body]
            tgt = _norm(st.target)
            m = re.match(r'^\(?(\w+), (\w+)\)?$', tgt)
            kind = None
            if m and len(body) == 1:
                for k in ('predicates', 'objects'):
                    if body[0] == f'mapping_graph = replace_{k}_in_graph(mapping_graph, {m.group(1)}, {m.group(2)})':
                        kind = k
            if kind is None or current is None:
                failures.append(f'{fn.name}: unrecognised loop over {dict_name}: {tgt} / {" | ".join(body)[:160]}')
            else:
                ops += [(kind, a, b) for a, b in current]
                current = None
        elif isinstance(st, ast.Assign) and isinstance(st.value, ast.Call) and _norm(st.value.func) in (
                'replace_predicates_in_graph', 'replace_objects_in_graph') and _norm(st.targets[0]) == 'mapping_graph':
            args = st.value.args
            if len(args) == 3 and _norm(args[0]) == 'mapping_graph':
                a, b = resolve(args[1], env, failures, fn.name), resolve(args[2], env, failures, fn.name)
                if a and b:
                    ops.append(('predicates' if 'predicates' in _norm(st.value.func) else 'objects', a, b))
            else:
                failures.append(f'{fn.name}: unrecognised call {_norm(st)[:120]}')
    if current is not None:
        failures.append(f'{fn.name}: dict {dict_name} is never applied')
    return ops


R2RML_PREAMBLE = (
    "mapping_graph.bind('rml', rdflib.term.URIRef(RML_NAMESPACE)) | "
    "query = f'SELECT ?logical_source ?x WHERE {{ ?logical_source <{R2RML_TABLE_NAME}> ?x . }} ' | "
    "for logical_source, _ in mapping_graph.query(query): mapping_graph.add((logical_source, rdflib.term.URIRef(RML_SQL_VERSION), rdflib.term.URIRef(RML_SQL2008))) | "
    "query = f'SELECT ?logical_source ?x WHERE {{ ?logical_source <{R2RML_SQL_QUERY}> ?x . }} ' | "
    "for logical_source, _ in mapping_graph.query(query): mapping_graph.add((logical_source, rdflib.term.URIRef(RML_SQL_VERSION), rdflib.term.URIRef(RML_SQL2008))) "
    "mapping_graph.add((logical_source, rdflib.term.URIRef(RML_REFERENCE_FORMULATION), rdflib.term.URIRef(RML_SQL2008)))")

SHORTCUT_LOOP = (
    "for constant_shortcut, constant_property in constant_shortcuts_dict.items(): "
    "for s, o in mapping_graph.query(f'SELECT ?s ?o WHERE {{?s <{constant_shortcut}> ?o .}}'): "
    "blanknode = rdflib.BNode() "
    "mapping_graph.add((s, rdflib.term.URIRef(constant_property), blanknode)) "
    "mapping_graph.add((blanknode, rdflib.term.URIRef(RML_CONSTANT), o)) "
    "mapping_graph.remove((None, rdflib.term.URIRef(constant_shortcut), None))")


def generate(src, env, out, summary):
    failures = []
    info = {}

    def func(rel, name, cls=None):
        try:
            return src.func(rel, name, cls)
        except Exception as e:
            failures.append(f'function not found: {rel}:{name} ({e!r})')
            return None

    # --- vocabulary rewrites ----------------------------------------------------------------------------
    r2 = func(MP, '_r2rml_to_rml')
    r2_ops = read_rewrite_function(r2, env, failures, 'r2rml_to_rml_dict') if r2 else []
    if r2:
        body = [st for st in r2.body if not (isinstance(st, ast.Expr) and isinstance(st.value, ast.Constant))]
        pre = []
        for st in body:
            if isinstance(st, ast.Assign) and _norm(st.targets[0]) == 'r2rml_to_rml_dict':
                break
            pre.append(_norm(st))
        if ' | '.join(pre) != R2RML_PREAMBLE:
            failures.append('_r2rml_to_rml: unrecognised statements before the vocabulary dict: ' + ' | '.join(pre)[:300])
        tail = _norm(body[-1]) if body else ''
        if tail != 'return mapping_graph':
            failures.append('_r2rml_to_rml: does not end with `return mapping_graph`')
    lg = func(MP, '_rml_legacy_to_rml')
    lg_ops = read_rewrite_function(lg, env, failures, 'rml_legacy_to_rml_dict') if lg else []
    # the order in which predicate and object rewrites interleave is kept: predicates first is what the model assumes
    kinds = [k for k, _, _ in r2_ops]
    if kinds != sorted(kinds, key=lambda k: 0 if k == 'predicates' else 1):
        failures.append('_r2rml_to_rml: object rewrites before predicate rewrites')
    r2_pred = [(a, b) for k, a, b in r2_ops if k == 'predicates']
    r2_obj = [(a, b) for k, a, b in r2_ops if k == 'objects']
    if any(k != 'predicates' for k, _, _ in lg_ops):
        failures.append('_rml_legacy_to_rml: rewrites something else than predicates')
    legacy = [(a, b) for _, a, b in lg_ops]

    # --- shortcut table ---------------------------------------------------------------------------------
    sc = func(MP, '_expand_constant_shortcut_properties')
    shortcuts = []
    if sc:
        body = [st for st in sc.body if not (isinstance(st, ast.Expr) and isinstance(st.value, ast.Constant))]
        if len(body) == 3 and isinstance(body[0], ast.Assign) and _norm(body[0].targets[0]) == 'constant_shortcuts_dict' \
                and _norm(body[1]) == SHORTCUT_LOOP and _norm(body[2]) == 'return mapping_graph':
            shortcuts = dict_pairs(body[0].value, env, failures, 'constant_shortcuts_dict')
        else:
            failures.append('_expand_constant_shortcut_properties: unrecognised shape: ' + ' | '.join(_norm(b) for b in body)[:400])

    # --- order of the steps -----------------------------------------------------------------------------
    order = []
    pf = func(MP, '_parse_data_source_mapping_files', 'MappingParser')
    if pf:
        seen_load = False
        for st in pf.body:
            if isinstance(st, ast.For) and 'mapping_file_paths' in _norm(st.iter):
                seen_load = True
                if 'load_yarrrml(f)' not in _norm(st) or 'mapping_graph.parse(f' not in _norm(st):
                    failures.append('_parse_data_source_mapping_files: unrecognised loading loop')
                continue
            if not seen_load:
                continue
            t = _norm(st)
            m = re.match(r'^mapping_graph = (\w+)\(mapping_graph\)$', t)
            m2 = re.match(r'^(\w+)\(mapping_graph\)$', t)
            name = m.group(1) if m else (m2.group(1) if m2 else None)
            if name:
                if name in STEP_OF:
                    order.append(STEP_OF[name])
                else:
                    failures.append(f'_parse_data_source_mapping_files: unknown normalisation step {name}')
            elif t == 'return _transform_mappings_into_dataframe(mapping_graph, section_name)':
                order.append('@query')
            else:
                failures.append(f'_parse_data_source_mapping_files: unrecognised statement {t[:120]}')
        if not seen_load:
            failures.append('_parse_data_source_mapping_files: loading loop not found')
        if order and order[-1] == '@query':
            order = order[:-1]
        else:
            failures.append('_parse_data_source_mapping_files: does not end with the parsing query')
        if '@query' in order:
            failures.append('_parse_data_source_mapping_files: parsing query before a normalisation step')
            order = [o for o in order if o != '@query']

    # --- shapes ----------------------------------------------------------------------------------------
    shapes = {}
    hashes = {}
    for name, rel, cls in [('_rdf_class_to_pom', MP, None), ('_subject_graph_maps_to_pom', MP, None),
                           ('_complete_pom_with_default_graph', MP, None), ('_complete_termtypes', MP, None),
                           ('_complete_triples_map_class', MP, None), ('_is_delimited_identifier', MP, None),
                           ('_get_undelimited_identifier', MP, None), ('_get_valid_template_identifiers', MP, None),
                           ('_remove_delimiters_from_mappings', MP, 'MappingParser'),
                           ('replace_predicates_in_graph', 'utils.py', None), ('replace_objects_in_graph', 'utils.py', None),
                           ('_template_to_rml', YA, None), ('_add_template', YA, None)]:
        fn = func(rel, name, cls)
        if fn is None:
            continue
        h = alpha_hash(fn)
        hashes[name] = h
        kind = KNOWN_SHAPES[name].get(h)
        if kind is None:
            failures.append(f'unrecognised shape of {name} (alpha hash {h})')
        shapes[name] = kind

    # --- the parsing query ------------------------------------------------------------------------------
    pq_vocab, pq_distinct, filters = [], False, {}
    delivery = None
    try:
        mc = importlib.import_module('morph_kgc.mapping.mapping_constants')
        q = mc.RML_PARSING_QUERY
        pq_distinct = bool(re.search(r'SELECT\s+DISTINCT\b', q))
        prefixes = dict(re.findall(r'prefix\s+(\w+):\s*<([^>]+)>', q))
        body = '\n'.join(l.split('#')[0] if not re.search(r'<[^>]*#', l) else l for l in q.split('\n'))
        body += '\n' + mc.RML_JOIN_CONDITION_PARSING_QUERY + '\n' + mc.FNML_PARSING_QUERY
        for pfx, local in re.findall(r'\b(\w+):(\w+)\b', body):
            if pfx in prefixes and pfx == 'rml':
                i = prefixes[pfx] + local
                if i not in pq_vocab:
                    pq_vocab.append(i)
        for var, lst in re.findall(r'FILTER\s*\(\s*\?(\w+)\s+IN\s*\(([^)]*)\)\s*\)', q):
            filters[var] = [prefixes['rml'] + x.strip()[4:] for x in lst.split(',') if x.strip().startswith('rml:')]
        for need in ('subject_map_type', 'predicate_map_type', 'object_map_type', 'graph_map_type', 'lang_datatype_map_type'):
            if need not in filters:
                failures.append(f'RML_PARSING_QUERY: no FILTER … IN for ?{need}')
        if not pq_distinct:
            failures.append('RML_PARSING_QUERY: SELECT without DISTINCT')
        qn = ' '.join('\n'.join(l.split('#')[0] if not re.search(r'<[^>]*#', l) else l for l in q.split('\n')).split())
        qh = hashlib.sha256(qn.encode()).hexdigest()[:16]
        delivery = KNOWN_QUERIES.get(qh)
        info['parsing_query_hash'] = qh
        if delivery is None:
            failures.append(f'RML_PARSING_QUERY: unrecognised shape (hash {qh})')
    except Exception as e:
        failures.append(f'RML_PARSING_QUERY: {e!r}')

    # vocabulary the step functions query / write (every RML_* constant they mention)
    step_vocab = []
    for name in ['_rdf_class_to_pom', '_expand_constant_shortcut_properties', '_subject_graph_maps_to_pom',
                 '_complete_pom_with_default_graph', '_complete_termtypes', '_complete_triples_map_class']:
        fn = func(MP, name)
        if fn is None:
            continue
        for n in ast.walk(fn):
            if isinstance(n, ast.Name) and n.id.startswith('RML_') and isinstance(env.get(n.id), str) and env[n.id] not in step_vocab:
                step_vocab.append(env[n.id])

    def const(name):
        v = env.get(name)
        if not isinstance(v, str):
            failures.append(f'constant {name} missing')
            return ''
        return v

    ok = 'true' if not failures else 'false'
    vocab_lines = [HEADER, 'import MorphKgc.Py.Str', '', 'namespace Gen', 'open Py', '',
                   '/-- first dict of `_r2rml_to_rml`, applied in this order with `replace_predicates_in_graph` -/',
                   'def r2rmlToRmlPred : List (Str × Str) := ' + lean_pairs(r2_pred), '',
                   '/-- second dict of `_r2rml_to_rml` and the trailing single call, applied in this order with `replace_objects_in_graph` -/',
                   'def r2rmlToRmlObj : List (Str × Str) := ' + lean_pairs(r2_obj), '',
                   '/-- dict of `_rml_legacy_to_rml` (predicates) -/',
                   'def legacyToRml : List (Str × Str) := ' + lean_pairs(legacy), '',
                   '/-- `constant_shortcuts_dict` of `_expand_constant_shortcut_properties`: shortcut property -> term-map property -/',
                   'def shortcutToMap : List (Str × Str) := ' + lean_pairs(shortcuts), '',
                   '/-- every `rml:` term `RML_PARSING_QUERY`, `RML_JOIN_CONDITION_PARSING_QUERY` and `FNML_PARSING_QUERY` mention -/',
                   'def parsingQueryVocabulary : List Str := [\n  ' + ',\n  '.join(lean_str(x) for x in pq_vocab) + '\n]', '',
                   '/-- every `RML_*` constant the normalisation steps query or write -/',
                   'def stepVocabulary : List Str := [\n  ' + ',\n  '.join(lean_str(x) for x in step_vocab) + '\n]', '',
                   '/-- the `FILTER (?x IN (…))` lists of the parsing query -/',
                   'def parsingQueryFilters : List (Str × List Str) := [\n  ' + ',\n  '.join(
                       f'({lean_str(k)}, [{", ".join(lean_str(x) for x in v)}])' for k, v in filters.items()) + '\n]', '',
                   f'def parsingQueryDistinct : Bool := {"true" if pq_distinct else "false"}', '']
    for lname, cname in [('rmlNamespace', 'RML_NAMESPACE'), ('rmlConstant', 'RML_CONSTANT'), ('rmlTemplate', 'RML_TEMPLATE'),
                         ('rmlReference', 'RML_REFERENCE'), ('rmlSubjectMap', 'RML_SUBJECT_MAP'), ('rmlPredicateMap', 'RML_PREDICATE_MAP'),
                         ('rmlObjectMap', 'RML_OBJECT_MAP'), ('rmlGraphMap', 'RML_GRAPH_MAP'), ('rmlSubjectShortcut', 'RML_SUBJECT_SHORTCUT'),
                         ('rmlPredicateShortcut', 'RML_PREDICATE_SHORTCUT'), ('rmlObjectShortcut', 'RML_OBJECT_SHORTCUT'),
                         ('rmlGraphShortcut', 'RML_GRAPH_SHORTCUT'), ('rmlLanguageShortcut', 'RML_LANGUAGE_SHORTCUT'),
                         ('rmlDatatypeShortcut', 'RML_DATATYPE_SHORTCUT'), ('rmlLanguageMap', 'RML_LANGUAGE_MAP'),
                         ('rmlDatatypeMap', 'RML_DATATYPE_MAP'), ('rmlClass', 'RML_CLASS'), ('rmlDefaultGraph', 'RML_DEFAULT_GRAPH'),
                         ('rmlTriplesMapClass', 'RML_TRIPLES_MAP_CLASS'), ('rmlPredicateObjectMap', 'RML_PREDICATE_OBJECT_MAP'),
                         ('rmlTermType', 'RML_TERM_TYPE'), ('rmlIri', 'RML_IRI'), ('rmlLiteral', 'RML_LITERAL'),
                         ('rmlBlankNode', 'RML_BLANK_NODE'), ('rdfType', 'RDF_TYPE'), ('xsdString', 'XSD_STRING')]:
        vocab_lines.append(f'def Iri.{lname} : Str := {lean_str(const(cname))}')
    yt = shapes.get('_template_to_rml') or 'raw'
    ya = shapes.get('_add_template') or 'startsCount'
    vocab_lines += ['',
                    '/-- does `yarrrml._template_to_rml` copy the literal text of a template as it is (`raw`) or escape its braces? -/',
                    'inductive YTemplateKind | raw | escaped', '  deriving DecidableEq, Repr',
                    '/-- when does `yarrrml._add_template` read a template as one reference: `startswith("$(") and count("$(") == 1`',
                    '    (`startsCount`) or only when the reference is the whole text (`wholeRef`) -/',
                    'inductive YAddKind | startsCount | wholeRef', '  deriving DecidableEq, Repr',
                    f'def yTemplateKind : YTemplateKind := .{yt}', f'def yAddKind : YAddKind := .{ya}', '',
                    '/-- how `RML_PARSING_QUERY` delivers the object maps of a predicate-object map: two consecutive OPTIONAL blocks over',
                    '    `?object_map` (ordinary object maps first, then `rml:parentTriplesMap`) or one OPTIONAL over their UNION -/',
                    'inductive ObjectDelivery | consecutiveOptionals | union', '  deriving DecidableEq, Repr',
                    f'def objectDelivery : ObjectDelivery := .{delivery or "consecutiveOptionals"}', '',
                    f'def vocabTranslated : Bool := {ok}', '', 'end Gen', '']
    write_if_changed(os.path.join(out, 'Vocab.lean'), '\n'.join(vocab_lines))

    order_lines = [HEADER, 'import MorphKgc.Model.NormStep', '', 'namespace Gen', 'open Model', '',
                   '/-- the statements `mapping_graph = _step(mapping_graph)` of `_parse_data_source_mapping_files`, in source order;',
                   '    the parsing query runs after the last of them -/',
                   'def normalisationOrder : List Step := [' + ', '.join('.' + s for s in order) + ']', '',
                   f'def normOrderTranslated : Bool := {ok}', '', 'end Gen', '']
    write_if_changed(os.path.join(out, 'NormOrder.lean'), '\n'.join(order_lines))

    info.update({'r2rml_pred': r2_pred, 'r2rml_obj': r2_obj, 'legacy': legacy, 'shortcuts': shortcuts, 'order': order,
                 'shapes': shapes, 'hashes': hashes, 'parsing_query_vocabulary': pq_vocab, 'filters': filters,
                 'distinct': pq_distinct, 'failures': failures})
    summary['surface'] = info
