"""C05: the literal escape chains and term delimiters of materializer.py -> Gen/Escape.lean"""
import ast
import os

from extract import HEADER, lean_pairs, lean_str, write_if_changed


def replace_chain(expr):
    """`X.str.replace(a, b, regex=False).str.replace(...)…` -> ([(a, b), …] innermost first, X) or None"""
    chain = []
    while isinstance(expr, ast.Call) and isinstance(expr.func, ast.Attribute) and expr.func.attr == 'replace' \
            and isinstance(expr.func.value, ast.Attribute) and expr.func.value.attr == 'str':
        if len(expr.args) != 2 or not all(isinstance(a, ast.Constant) and isinstance(a.value, str) for a in expr.args):
            return None
        kws = {k.arg: k.value for k in expr.keywords}
        if set(kws) != {'regex'} or not (isinstance(kws['regex'], ast.Constant) and kws['regex'].value is False):
            return None
        chain.append((expr.args[0].value, expr.args[1].value))
        expr = expr.func.value.value
    chain.reverse()
    return chain, expr


def find_escape_chain(fn):
    best = None
    for node in ast.walk(fn):
        if isinstance(node, ast.Assign):
            rc = replace_chain(node.value)
            if rc and len(rc[0]) >= 2:
                tgt = ast.unparse(node.targets[0])
                srcx = ast.unparse(rc[1])
                if best is None or len(rc[0]) > len(best[0]):
                    best = (rc[0], tgt, srcx)
    return best


def delimiters(fn, env):
    """the `if termtype.strip() == RML_X: results_df[position] = A + results_df[..] + B` ladder"""
    out = {}
    for node in ast.walk(fn):
        if isinstance(node, ast.If):
            t = node.test
            if isinstance(t, ast.Compare) and len(t.ops) == 1 and isinstance(t.ops[0], ast.Eq) \
                    and ast.unparse(t.left) == 'termtype.strip()' and isinstance(t.comparators[0], ast.Name):
                key = t.comparators[0].id
                for st in node.body:
                    if isinstance(st, ast.Assign) and ast.unparse(st.targets[0]) == 'results_df[position]' \
                            and isinstance(st.value, ast.BinOp):
                        # flatten the + chain
                        parts = []
                        def flat(e):
                            if isinstance(e, ast.BinOp) and isinstance(e.op, ast.Add):
                                flat(e.left); flat(e.right)
                            else:
                                parts.append(e)
                        flat(st.value)
                        pre = ''.join(p.value for p in parts if isinstance(p, ast.Constant) and parts.index(p) == 0)
                        post = ''.join(p.value for p in parts[1:] if isinstance(p, ast.Constant))
                        if key not in out:
                            out[key] = (pre, post)
    return out


def generate(src, env, out, summary):
    rel = 'materializer.py'
    failures = []
    chains = {}
    for fname, key in (('_materialize_template', 'template'), ('_materialize_fnml_execution', 'fnml')):
        try:
            fn = src.func(rel, fname)
        except KeyError:
            failures.append(f'{fname} not found')
            chains[key] = []
            continue
        best = find_escape_chain(fn)
        if best is None:
            failures.append(f'no .str.replace(…, regex=False) escape chain found in {fname}')
            chains[key] = []
        else:
            chain, tgt, srcx = best
            if tgt != srcx:
                failures.append(f'escape chain of {fname} is assigned to {tgt} but reads {srcx}')
            chains[key] = chain
    delims = {}
    try:
        d = delimiters(src.func(rel, '_materialize_template'), env)
        for name, lean in (('RML_IRI', 'iri'), ('RML_BLANK_NODE', 'bnode'), ('RML_LITERAL', 'literal')):
            if name in d:
                delims[lean] = d[name]
            else:
                failures.append(f'term delimiter branch for {name} not recognised')
                delims[lean] = ('', '')
    except KeyError:
        failures.append('_materialize_template not found')

    lines = [HEADER, 'import MorphKgc.Py.Str', '', 'namespace Gen', 'open Py', '',
             '/-- the `.str.replace(a, b, regex=False)` chain of `_materialize_template`, in call order -/',
             'def escapeChainTemplate : List (Str × Str) := ' + lean_pairs(chains.get('template', [])), '',
             '/-- the chain of `_materialize_fnml_execution` -/',
             'def escapeChainFnml : List (Str × Str) := ' + lean_pairs(chains.get('fnml', [])), '']
    for k in ('iri', 'bnode', 'literal'):
        pre, post = delims.get(k, ('', ''))
        lines.append(f'def delim_{k} : Str × Str := ({lean_str(pre)}, {lean_str(post)})')
    lines += ['', f'def escapeTranslated : Bool := {"true" if not failures else "false"}', '', 'end Gen', '']
    write_if_changed(os.path.join(out, 'Escape.lean'), '\n'.join(lines))
    summary['escape'] = {'chains': chains, 'delims': delims, 'failures': failures}
