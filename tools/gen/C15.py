"""C15: the `datatype == XSD_…` canonicalisation ladders of materializer.py (both sites) -> Gen/Canon.lean"""
import ast
import os

from extract import HEADER, lean_pairs, lean_str, write_if_changed

REL = 'materializer.py'
SITES = [('Template', '_materialize_template'), ('Fnml', '_materialize_fnml_execution')]
LITERAL_TEST = 'termtype.strip() == RML_LITERAL'
# the regex of the `fix:` commit, recognised by its exact strings
STRIP_PAT = r'^([+-]?[0-9]+)\.0\Z'
STRIP_REPL = r'\1'


def _dump(n):
    return ast.dump(n, annotate_fields=False, include_attributes=False).replace('Store()', 'Load()')


def _const_str(n, env):
    if isinstance(n, ast.Constant) and isinstance(n.value, str):
        return n.value
    if isinstance(n, ast.Name) and isinstance(env.get(n.id), str):
        return env[n.id]
    return None


def _kw(call, name):
    for k in call.keywords:
        if k.arg == name:
            return k.value
    return None


def _method_call(n, name):
    """`X.<name>(...)` -> (X, call) else None"""
    if isinstance(n, ast.Call) and isinstance(n.func, ast.Attribute) and n.func.attr == name:
        return n.func.value, n
    return None


def _str_accessor(n):
    """`X.str` -> X"""
    if isinstance(n, ast.Attribute) and n.attr == 'str':
        return n.value
    return None


def _is_astype(n, tyname):
    mc = _method_call(n, 'astype')
    if mc and len(mc[1].args) == 1 and not mc[1].keywords and isinstance(mc[1].args[0], ast.Name) and mc[1].args[0].id == tyname:
        return mc[0]
    return None


def classify_rhs(value, col_dump, env):
    """shape of the right-hand side of one branch; returns (lean_term, json) or (None, reason)"""
    # COL.str.lower()
    mc = _method_call(value, 'lower')
    if mc and not mc[1].args and not mc[1].keywords:
        base = _str_accessor(mc[0])
        if base is not None and _dump(base) == col_dump:
            return '.lowerAll', {'shape': 'lowerAll'}
    # COL[.astype(str)].str.replace(a, b, regex=…)
    mc = _method_call(value, 'replace')
    if mc and len(mc[1].args) == 2 and [k.arg for k in mc[1].keywords] == ['regex']:
        base = _str_accessor(mc[0])
        a, b = _const_str(mc[1].args[0], {}), _const_str(mc[1].args[1], {})
        rx = _kw(mc[1], 'regex')
        if base is not None and a is not None and b is not None and isinstance(rx, ast.Constant) and isinstance(rx.value, bool):
            if rx.value is False and _dump(base) == col_dump:
                if a == '':
                    return None, 'str.replace with an empty pattern'
                return f'.replaceAll {lean_str(a)} {lean_str(b)}', {'shape': 'replaceAll', 'old': a, 'new': b}
            if rx.value is True:
                inner = _is_astype(base, 'str')
                root = inner if inner is not None else base
                if _dump(root) == col_dump and a == STRIP_PAT and b == STRIP_REPL:
                    return '.stripDotZero', {'shape': 'stripDotZero', 'astype_str': inner is not None}
                return None, f'unrecognised regular expression {a!r} -> {b!r}'
    # COL.astype(float).astype(int).astype(str)
    x = _is_astype(value, 'str')
    if x is not None:
        y = _is_astype(x, 'int')
        if y is not None:
            z = _is_astype(y, 'float')
            if z is not None and _dump(z) == col_dump:
                return '.viaFloatInt', {'shape': 'viaFloatInt'}
    return None, 'unrecognised right-hand side ' + ast.unparse(value)[:160]


def keys_of_test(test, env):
    """`datatype == K` | `datatype in (K1, K2)` | `… or …` -> list of IRIs, or None"""
    if isinstance(test, ast.BoolOp) and isinstance(test.op, ast.Or):
        out = []
        for v in test.values:
            ks = keys_of_test(v, env)
            if ks is None:
                return None
            out.extend(ks)
        return out
    if isinstance(test, ast.Compare) and len(test.ops) == 1 and isinstance(test.left, ast.Name) and test.left.id == 'datatype':
        rhs = test.comparators[0]
        if isinstance(test.ops[0], ast.Eq):
            k = _const_str(rhs, env)
            return None if k is None else [k]
        if isinstance(test.ops[0], ast.In) and isinstance(rhs, (ast.Tuple, ast.List, ast.Set)):
            ks = [_const_str(e, env) for e in rhs.elts]
            return None if any(k is None for k in ks) else ks
    return None


def mentions_datatype(test):
    return any(isinstance(n, ast.Name) and n.id == 'datatype' for n in ast.walk(test))


def escape_chain(value, col_dump):
    """`COL.str.replace(a, b, regex=False).str.replace(…)…` -> [(a, b)] in application order, or None"""
    pairs = []
    cur = value
    while True:
        mc = _method_call(cur, 'replace')
        if not mc:
            break
        call = mc[1]
        base = _str_accessor(mc[0])
        rx = _kw(call, 'regex')
        if base is None or len(call.args) != 2 or not (isinstance(rx, ast.Constant) and rx.value is False):
            return None
        a, b = _const_str(call.args[0], {}), _const_str(call.args[1], {})
        if a is None or b is None:
            return None
        pairs.append((a, b))
        cur = base
    if not pairs or _dump(cur) != col_dump:
        return None
    return list(reversed(pairs))


def is_escape_chain(pairs):
    """the literal escape chain: starts with the backslash and rewrites the double quote"""
    return pairs is not None and len(pairs) >= 2 and pairs[0] == ('\\', '\\\\') and ('"', '\\"') in pairs


def read_site(fn, env):
    fails = []
    res = {'ladder': [], 'order': None, 'under_literal': False, 'escape': None, 'column': None}
    # every If (and elif) of the function, with its parent statement list
    lit_blocks = []
    heads = []

    def visit(stmts, in_literal_block):
        for st in stmts:
            if isinstance(st, ast.If):
                node = st
                chain_is_dt = False
                while True:
                    is_dt = mentions_datatype(node.test)
                    if is_dt and not chain_is_dt:
                        heads.append((node, stmts, in_literal_block))
                        chain_is_dt = True
                    is_lit = ast.unparse(node.test) == LITERAL_TEST
                    if is_lit:
                        lit_blocks.append(node.body)
                    visit(node.body, node.body if is_lit else None)
                    if len(node.orelse) == 1 and isinstance(node.orelse[0], ast.If):
                        node = node.orelse[0]
                        if not mentions_datatype(node.test):
                            chain_is_dt = False
                        continue
                    visit(node.orelse, None)
                    break
            else:
                for field in ('body', 'orelse', 'finalbody'):
                    sub = getattr(st, field, None)
                    if isinstance(sub, list):
                        visit(sub, None)
                for h in getattr(st, 'handlers', []) or []:
                    visit(h.body, None)

    visit(fn.body, None)
    if len(heads) != 1:
        fails.append(f'{fn.name}: expected exactly one `datatype == …` ladder, found {len(heads)}')
        if not heads:
            return res, fails
    head, parent, block = heads[0]
    res['under_literal'] = block is not None and parent is block and any(st is head for st in block)
    if not res['under_literal']:
        fails.append(f'{fn.name}: the datatype ladder is not a direct statement of the `{LITERAL_TEST}` block')

    # --- the ladder -------------------------------------------------------------------------------
    col_dump = None
    node = head
    while True:
        keys = keys_of_test(node.test, env)
        if keys is None:
            fails.append(f'{fn.name}: unrecognised ladder test `{ast.unparse(node.test)[:120]}`')
            keys = []
        body = [s for s in node.body if not isinstance(s, ast.Pass)]
        term, js = None, None
        if len(body) == 0:
            term, js = '.none', {'shape': 'none'}
        elif len(body) == 1 and isinstance(body[0], ast.Assign) and len(body[0].targets) == 1:
            tgt = _dump(body[0].targets[0])
            if col_dump is None:
                col_dump = tgt
                res['column'] = ast.unparse(body[0].targets[0])
            if tgt != col_dump:
                fails.append(f'{fn.name}: branch `{ast.unparse(node.test)}` assigns to a different column')
            term, js = classify_rhs(body[0].value, col_dump, env)
            if term is None:
                fails.append(f'{fn.name}: branch `{ast.unparse(node.test)}`: {js}')
                term, js = '.unrecognised', {'shape': 'unrecognised'}
        else:
            fails.append(f'{fn.name}: branch `{ast.unparse(node.test)}` is not a single assignment')
            term, js = '.unrecognised', {'shape': 'unrecognised'}
        for k in keys:
            res['ladder'].append({'key': k, 'lean': term, **js})
        if len(node.orelse) == 1 and isinstance(node.orelse[0], ast.If):
            node = node.orelse[0]
            continue
        if [s for s in node.orelse if not isinstance(s, ast.Pass)]:
            fails.append(f'{fn.name}: the ladder has an `else:` branch that touches every other datatype')
        break

    # --- the other statements of the literal block: escape chain (once), term assembly -------------
    if res['under_literal']:
        idx_ladder = [i for i, st in enumerate(block) if st is head][0]
        idx_escape = None
        for i, st in enumerate(block):
            if st is head:
                continue
            if isinstance(st, ast.Assign) and len(st.targets) == 1:
                if col_dump is not None and _dump(st.targets[0]) == col_dump:
                    pairs = escape_chain(st.value, col_dump)
                    if is_escape_chain(pairs) and idx_escape is None:
                        idx_escape = i
                        res['escape'] = pairs
                        continue
                    fails.append(f'{fn.name}: unrecognised rewrite of the value column in the literal block: {ast.unparse(st)[:160]}')
                    continue
                if ast.unparse(st.targets[0]) == 'results_df[position]':
                    continue        # delimiters
            fails.append(f'{fn.name}: unrecognised statement in the literal block: {ast.unparse(st)[:160]}')
        if idx_escape is None:
            fails.append(f'{fn.name}: literal escape chain not found next to the ladder')
        else:
            res['order'] = 'canonThenEscape' if idx_ladder < idx_escape else 'escapeThenCanon'
    return res, fails


def generate(src, env, out, summary):
    failures = []
    sites = {}
    for tag, name in SITES:
        try:
            fn = src.func(REL, name)
        except KeyError as e:
            failures.append(f'function not found: {e}')
            sites[tag] = {'ladder': [], 'order': None, 'under_literal': False, 'escape': None, 'column': None}
            continue
        sites[tag], fl = read_site(fn, env)
        failures.extend(fl)
    a, b = sites['Template'], sites['Fnml']
    strip = lambda lad: [(e['key'], e['lean']) for e in lad]
    if strip(a['ladder']) != strip(b['ladder']):
        failures.append('the two sites disagree on the ladder: ' + repr(strip(a['ladder'])) + ' vs ' + repr(strip(b['ladder'])))
    if a['order'] != b['order']:
        failures.append(f'the two sites disagree on the order: {a["order"]} vs {b["order"]}')
    if a['escape'] != b['escape']:
        failures.append('the two sites have different escape chains')
    for k in ('RML_LITERAL', 'XSD_BOOLEAN', 'XSD_DATETIME', 'XSD_INTEGER'):
        if not isinstance(env.get(k), str):
            failures.append(f'constant {k} not available')

    lines = [HEADER, 'import MorphKgc.Model.Canon', '', 'namespace Gen', 'open Py Model', '']
    for tag, name in SITES:
        s = sites[tag]
        lad = ',\n    '.join(f'({lean_str(e["key"])}, {e["lean"]})' for e in s['ladder'])
        lines += [f'/-- `{name}`: the `datatype == …` ladder in source order (keys: values of morph_kgc.constants), its position',
                  f'    relative to the literal escape chain, whether it sits directly under `{LITERAL_TEST}`, and that chain -/',
                  f'def canonSite{tag} : CanonSite where',
                  '  ladder := [' + ('\n    ' + lad if lad else '') + ']',
                  f'  order := .{s["order"] or "escapeThenCanon"}',
                  f'  underLiteral := {"true" if s["under_literal"] else "false"}',
                  '  escapeChain := ' + (lean_pairs(s['escape']) if s['escape'] else '[]'), '']
    lines += ['def canonSites : List CanonSite := [canonSiteTemplate, canonSiteFnml]', '',
              f'def rmlLiteral : Str := {lean_str(env.get("RML_LITERAL", "") or "")}', '',
              f'def canonTranslated : Bool := {"true" if not failures else "false"}', '', 'end Gen', '']
    write_if_changed(os.path.join(out, 'Canon.lean'), '\n'.join(lines))
    summary['canon'] = {'sites': sites, 'failures': failures}
