"""C17: output paths and output-file preparation (config.py, constants.py, utils.py, materializer.py, __main__.py)
-> Gen/Output.lean

Generated:
  * tables/constants: OUTPUT_FORMAT_FILE_EXTENSION (ordered), OUTPUT_FILE / OUTPUT_DIR option names, their defaults and
    whether an empty value is kept (CONFIGURATION_OPTIONS_EMPTY_VALID) or replaced by the default;
  * a translation of `Config.get_output_file_path` into a Lean definition over the `Py.Path` primitives;
  * the *shape* of `prepare_output_files`, `create_dirs_in_path`, `triples_to_file`, the call made by
    `_materialize_mapping_group_to_file`, and the order prepare -> write in `__main__`.
Anything not recognised is a failure in summary['output'] (never guessed).
"""
import ast
import os

from extract import HEADER, lean_pairs, lean_str, write_if_changed


class Fail(Exception):
    pass


def norm(node_or_nodes):
    if isinstance(node_or_nodes, list):
        return ' '.join(' '.join(ast.unparse(n).split()) for n in node_or_nodes)
    return ' '.join(ast.unparse(node_or_nodes).split())


def strip_doc(body):
    if body and isinstance(body[0], ast.Expr) and isinstance(body[0].value, ast.Constant) and isinstance(body[0].value.value, str):
        return body[1:]
    return body


# ----------------------------------------------------------------------------------------------------
# module-level string constants of config.py (NAME = 'lit' | NAME = OTHER)
# ----------------------------------------------------------------------------------------------------

def config_env(src, env):
    cenv = dict((k, v) for k, v in env.items() if isinstance(v, str))
    dicts = {}
    for n in src.tree('config.py').body:
        if isinstance(n, ast.Assign) and len(n.targets) == 1 and isinstance(n.targets[0], ast.Name):
            name = n.targets[0].id
            v = n.value
            if isinstance(v, ast.Constant) and isinstance(v.value, str):
                cenv[name] = v.value
            elif isinstance(v, ast.Name) and v.id in cenv:
                cenv[name] = cenv[v.id]
            elif isinstance(v, ast.Dict):
                dicts[name] = v
    return cenv, dicts


# ----------------------------------------------------------------------------------------------------
# get_output_file_path  ->  Lean
# ----------------------------------------------------------------------------------------------------

class FnTranslator:
    """Straight-line Python over str / Optional[str] / PurePath -> Lean `do` block in `Except PyErr`."""

    def __init__(self, cenv, used_consts):
        self.cenv = cenv
        self.used = used_consts

    def expr(self, e, vt):
        """returns (lean term, type in {'str','optstr','path'}, monadic?)"""
        if isinstance(e, ast.Constant):
            if isinstance(e.value, str):
                return '(' + lean_str(e.value) + ')', 'str', False
            if e.value is None:
                return '(none : Option Str)', 'optstr', False
            raise Fail(f'constant {e.value!r}')
        if isinstance(e, ast.Name):
            if e.id in vt:
                return vt[e.id][0], vt[e.id][1], False
            if e.id in self.cenv:
                self.used[e.id] = self.cenv[e.id]
                return f'K_{e.id}', 'str', False
            raise Fail(f'unknown name {e.id}')
        if isinstance(e, ast.Call):
            f = e.func
            src = norm(e)
            getters = {'self.get_output_dir()': 'outputDir', 'self.get_output_file()': 'outputFile',
                       'self.get_output_format()': 'outputFormat'}
            if src in getters:
                return getters[src], 'str', False
            if isinstance(f, ast.Name) and f.id in ('Path', 'PurePosixPath', 'PurePath') and not e.keywords:
                args, mon = [], False
                for a in e.args:
                    t, ty, m = self.expr(a, vt)
                    mon = mon or m
                    if m:
                        t = f'(← {t})'
                    if ty == 'str':
                        args.append(f'some {t}')
                    elif ty == 'optstr':
                        args.append(t)
                    else:
                        raise Fail('Path() applied to a path')
                return 'mkPath [' + ', '.join(args) + ']', 'path', True
            if isinstance(f, ast.Attribute) and f.attr == 'with_suffix' and len(e.args) == 1 and not e.keywords:
                t, ty, m = self.expr(f.value, vt)
                s, sty, sm = self.expr(e.args[0], vt)
                if ty != 'path' or sty != 'str':
                    raise Fail('with_suffix on ' + ty + '/' + sty)
                if m:
                    t = f'(← {t})'
                if sm:
                    s = f'(← {s})'
                return f'withSuffix {t} {s}', 'path', True
            if isinstance(f, ast.Attribute) and f.attr == 'as_posix' and not e.args:
                t, ty, m = self.expr(f.value, vt)
                if ty != 'path':
                    raise Fail('as_posix on ' + ty)
                if m:
                    t = f'(← {t})'
                return f'(pathStr {t})', 'str', False
            if isinstance(f, ast.Name) and f.id == 'str' and len(e.args) == 1:
                t, ty, m = self.expr(e.args[0], vt)
                if m:
                    t = f'(← {t})'
                if ty == 'path':
                    return f'(pathStr {t})', 'str', False
                if ty == 'str':
                    return t, 'str', False
                raise Fail('str() of ' + ty)
            raise Fail('call ' + src)
        if isinstance(e, ast.Subscript) and isinstance(e.value, ast.Name) and e.value.id == 'OUTPUT_FORMAT_FILE_EXTENSION':
            k, ty, m = self.expr(e.slice, vt)
            if ty != 'str':
                raise Fail('subscript key of type ' + ty)
            if m:
                k = f'(← {k})'
            return f'dictGet outputFormatFileExtension {k}', 'str', True
        if isinstance(e, ast.BinOp) and isinstance(e.op, ast.Add):
            a, at, am = self.expr(e.left, vt)
            b, bt, bm = self.expr(e.right, vt)
            if at != 'str' or bt != 'str':
                raise Fail(f'+ on {at}/{bt}')
            if am:
                a = f'(← {a})'
            if bm:
                b = f'(← {b})'
            return f'({a} ++ {b})', 'str', False
        if isinstance(e, ast.JoinedStr):
            parts = []
            for v in e.values:
                if isinstance(v, ast.Constant):
                    parts.append('(' + lean_str(v.value) + ')')
                elif isinstance(v, ast.FormattedValue) and v.conversion == -1 and v.format_spec is None:
                    t, ty, m = self.expr(v.value, vt)
                    if m:
                        t = f'(← {t})'
                    if ty == 'path':
                        t = f'(pathStr {t})'
                    elif ty != 'str':
                        raise Fail('f-string of ' + ty)
                    parts.append(t)
                else:
                    raise Fail('f-string conversion')
            return '(' + ' ++ '.join(parts or ['([] : List Char)']) + ')', 'str', False
        raise Fail('expression ' + norm(e))

    def test(self, e, vt):
        if isinstance(e, ast.UnaryOp) and isinstance(e.op, ast.Not):
            return f'(!{self.test(e.operand, vt)})'
        if isinstance(e, ast.Compare) and len(e.ops) == 1 and isinstance(e.comparators[0], ast.Constant) \
                and e.comparators[0].value is None and isinstance(e.ops[0], (ast.Is, ast.IsNot)):
            t, ty, m = self.expr(e.left, vt)
            if m or ty != 'optstr':
                raise Fail('is None on ' + ty)
            return f'({t}).isNone' if isinstance(e.ops[0], ast.Is) else f'({t}).isSome'
        t, ty, m = self.expr(e, vt)
        if m:
            raise Fail('effectful test ' + norm(e))
        if ty == 'str':
            return f'truthy {t}'
        if ty == 'optstr':
            return f'(match {t} with | some s => truthy s | none => false)'
        raise Fail('truthiness of ' + ty)

    def block(self, stmts, vt, ind):
        """statements (with tail duplication after an `if`); every path must end in return/raise"""
        pad = '  ' * ind
        if not stmts:
            raise Fail('a path through the function ends without `return`')
        st, rest = stmts[0], stmts[1:]
        if isinstance(st, ast.Assign) and len(st.targets) == 1 and isinstance(st.targets[0], ast.Name):
            t, ty, m = self.expr(st.value, vt)
            v = 'v_' + st.targets[0].id
            vt2 = dict(vt)
            vt2[st.targets[0].id] = (v, ty)
            op = '←' if m else ':='
            return [f'{pad}let {v} {op} {t}'] + self.block(rest, vt2, ind)
        if isinstance(st, ast.Return) and st.value is not None:
            t, ty, m = self.expr(st.value, vt)
            if ty != 'str':
                raise Fail('returns ' + ty)
            return [f'{pad}{t}' if m else f'{pad}pure {t}']
        if isinstance(st, ast.Raise):
            exc = norm(st.exc) if st.exc else ''
            kind = 'valueError' if exc.startswith('ValueError') else 'typeError' if exc.startswith('TypeError') else \
                'keyError' if exc.startswith('KeyError') else None
            if kind is None:
                raise Fail('raise ' + exc)
            return [f'{pad}throw PyErr.{kind}']
        if isinstance(st, ast.If):
            out = [f'{pad}if {self.test(st.test, vt)} then do']
            out += self.block(list(st.body) + rest, vt, ind + 1)
            out += [f'{pad}else do']
            out += self.block(list(st.orelse) + rest, vt, ind + 1)
            return out
        if isinstance(st, ast.Pass) or (isinstance(st, ast.Expr) and isinstance(st.value, ast.Constant)):
            return self.block(rest, vt, ind)
        raise Fail('statement ' + norm(st)[:120])


def translate_get_output_file_path(src, cenv, used):
    fn = src.func('config.py', 'get_output_file_path', cls='Config')
    a = fn.args
    names = [x.arg for x in a.args]
    if names != ['self', 'mapping_group'] or a.vararg or a.kwarg or a.kwonlyargs or len(a.defaults) != 1 \
            or not (isinstance(a.defaults[0], ast.Constant) and a.defaults[0].value is None):
        raise Fail('signature of get_output_file_path is not (self, mapping_group=None)')
    tr = FnTranslator(cenv, used)
    body = tr.block(strip_doc(fn.body), {'mapping_group': ('mappingGroup', 'optstr')}, 1)
    return body


# ----------------------------------------------------------------------------------------------------
# shapes
# ----------------------------------------------------------------------------------------------------

def shape_prepare(src, failures):
    """utils.prepare_output_files -> dict(dirMakedirs, dirRemove, fileCreateDirs, fileRemove)"""
    sh = {'dirMakedirs': False, 'dirRemove': 'none', 'fileCreateDirs': False, 'fileRemove': False}
    fn = src.func('utils.py', 'prepare_output_files')
    if [x.arg for x in fn.args.args] != ['config', 'rml_df']:
        failures.append('prepare_output_files: signature is not (config, rml_df)')
    body = strip_doc(fn.body)
    if len(body) != 2 or norm(body[0]) != 'output_dir = config.get_output_dir()' or not isinstance(body[1], ast.If) \
            or norm(body[1].test) != 'output_dir':
        failures.append('prepare_output_files: not `output_dir = config.get_output_dir()` followed by `if output_dir:`')
        return sh
    # --- output_dir branch
    ALL = ("mapping_groups_names = set(rml_df['mapping_partition'])",)
    ASSERTED = (
        "mapping_groups_names = set(rml_df.loc[rml_df['triples_map_type'] == RML_TRIPLES_MAP_CLASS]['mapping_partition'])",
        "mapping_groups_names = set(rml_df[rml_df['triples_map_type'] == RML_TRIPLES_MAP_CLASS]['mapping_partition'])",
        "mapping_groups_names = set(rml_df.loc[rml_df['triples_map_type'] == RML_TRIPLES_MAP_CLASS, 'mapping_partition'])",
    )
    LOOP = ('for mapping_group_name in mapping_groups_names: '
            'mapping_group_file_path = config.get_output_file_path(mapping_group_name) '
            'if os.path.exists(mapping_group_file_path): os.remove(mapping_group_file_path)')
    scope, loop, seen_mk = None, False, False
    for st in body[1].body:
        s = norm(st)
        if s == 'if not os.path.exists(output_dir): os.makedirs(output_dir)' and not scope and not loop:
            sh['dirMakedirs'] = True
        elif s in ('os.makedirs(output_dir, exist_ok=True)',) and not scope and not loop:
            sh['dirMakedirs'] = True
        elif s in ALL and not loop:
            scope = 'allRuleGroups'
        elif s in ASSERTED and not loop:
            scope = 'assertedGroups'
        elif s == LOOP and scope:
            loop = True
        else:
            failures.append('prepare_output_files (output_dir branch): unrecognised statement: ' + s[:200])
    if loop:
        sh['dirRemove'] = scope
    # --- single-file branch
    got_path, state = False, 0
    for st in body[1].orelse:
        s = norm(st)
        if s == 'output_file = config.get_output_file_path()' and not got_path:
            got_path = True
        elif s == 'create_dirs_in_path(output_file)' and got_path and not sh['fileRemove']:
            sh['fileCreateDirs'] = True
        elif s == 'if os.path.exists(output_file): os.remove(output_file)' and got_path:
            sh['fileRemove'] = True
        else:
            failures.append('prepare_output_files (output_file branch): unrecognised statement: ' + s[:200])
    if not got_path:
        failures.append('prepare_output_files (output_file branch): output path is not config.get_output_file_path()')
    return sh


CREATE_DIRS_SHAPES = {
    'file_path = file_path.strip() if not os.path.exists(os.path.dirname(file_path)): '
    'if os.path.dirname(file_path): os.makedirs(os.path.dirname(file_path))': True,
    'if not os.path.exists(os.path.dirname(file_path)): '
    'if os.path.dirname(file_path): os.makedirs(os.path.dirname(file_path))': False,
    'if os.path.dirname(file_path): os.makedirs(os.path.dirname(file_path), exist_ok=True)': False,
    'file_path = file_path.strip() if os.path.dirname(file_path): os.makedirs(os.path.dirname(file_path), exist_ok=True)': True,
}


def shape_create_dirs(src, failures):
    fn = src.func('utils.py', 'create_dirs_in_path')
    if [x.arg for x in fn.args.args] != ['file_path']:
        failures.append('create_dirs_in_path: signature is not (file_path)')
    s = norm(strip_doc(fn.body))
    if s not in CREATE_DIRS_SHAPES:
        failures.append('create_dirs_in_path: unrecognised body: ' + s[:300])
        return True
    return CREATE_DIRS_SHAPES[s]


def shape_writer(src, failures):
    """utils.triples_to_file -> (open mode, line suffix)"""
    fn = src.func('utils.py', 'triples_to_file')
    if [x.arg for x in fn.args.args] != ['triples', 'config', 'mapping_group']:
        failures.append('triples_to_file: signature is not (triples, config, mapping_group=None)')
    mode, suffix = None, None
    HARMLESS = {'lock = mp.Lock()', 'f.flush()', 'os.fsync(f.fileno())', 'f.close()'}

    def walk(stmts):
        nonlocal mode, suffix
        for st in stmts:
            s = norm(st)
            if s in HARMLESS:
                continue
            if isinstance(st, ast.With) and norm(st.items[0].context_expr) in ('lock',) and len(st.items) == 1:
                walk(st.body)
                continue
            if isinstance(st, ast.Assign) and norm(st.targets[0]) == 'f' and isinstance(st.value, ast.Call) \
                    and norm(st.value.func) == 'open' and len(st.value.args) == 2 \
                    and norm(st.value.args[0]) == 'config.get_output_file_path(mapping_group)' \
                    and isinstance(st.value.args[1], ast.Constant) and st.value.args[1].value in ('a', 'w') \
                    and [(k.arg, norm(k.value)) for k in st.value.keywords] == [('encoding', "'utf-8'")] and mode is None:
                mode = st.value.args[1].value
                continue
            if isinstance(st, ast.For) and norm(st.target) == 'triple' and norm(st.iter) == 'triples' and not st.orelse \
                    and len(st.body) == 1 and mode is not None and suffix is None:
                w = st.body[0]
                if isinstance(w, ast.Expr) and isinstance(w.value, ast.Call) and norm(w.value.func) == 'f.write' \
                        and len(w.value.args) == 1 and isinstance(w.value.args[0], ast.JoinedStr):
                    vals = w.value.args[0].values
                    if len(vals) == 2 and isinstance(vals[0], ast.FormattedValue) and norm(vals[0].value) == 'triple' \
                            and vals[0].conversion == -1 and vals[0].format_spec is None and isinstance(vals[1], ast.Constant) \
                            and vals[1].value.endswith('\n') and '\n' not in vals[1].value[:-1]:
                        suffix = vals[1].value[:-1]
                        continue
            failures.append('triples_to_file: unrecognised statement: ' + s[:200])
    walk(strip_doc(fn.body))
    if mode is None:
        failures.append("triples_to_file: `f = open(config.get_output_file_path(mapping_group), 'a'|'w', encoding='utf-8')` not found")
    if suffix is None:
        failures.append("triples_to_file: `for triple in triples: f.write(f'{triple}<suffix>\\n')` not found")
    return mode or 'a', suffix if suffix is not None else ' .'


def shape_group_writer(src, failures):
    fn = src.func('materializer.py', '_materialize_mapping_group_to_file')
    calls = [n for n in ast.walk(fn) if isinstance(n, ast.Call) and norm(n.func) == 'triples_to_file']
    if len(calls) != 1 or norm(calls[0]) != "triples_to_file(triples, config, mapping_group_df.iloc[0]['mapping_partition'])":
        failures.append('_materialize_mapping_group_to_file: expected exactly one call '
                        "triples_to_file(triples, config, mapping_group_df.iloc[0]['mapping_partition'])")
    # the call must be a top-level statement of the function (once per group, after the rule loop)
    top = [norm(st) for st in fn.body]
    if not any(s.startswith('triples_to_file(') for s in top):
        failures.append('_materialize_mapping_group_to_file: triples_to_file is not called once at the end of the group')
    for n in ast.walk(fn):
        if isinstance(n, ast.Call) and norm(n.func) in ('os.remove', 'os.unlink', 'open', 'os.makedirs', 'shutil.rmtree'):
            failures.append('_materialize_mapping_group_to_file: touches the file system directly: ' + norm(n)[:100])


def shape_main(src, failures):
    """__main__: prepare_output_files(config, rml_df) precedes the writers; groups = asserted rules by mapping_partition"""
    tree = src.tree('__main__.py')
    main_if = [n for n in tree.body if isinstance(n, ast.If) and norm(n.test) in ("__name__ == '__main__'",)]
    if len(main_if) != 1:
        failures.append('__main__: `if __name__ == "__main__":` block not found')
        return False
    body = main_if[0].body
    prep = [i for i, st in enumerate(body) if norm(st) == 'prepare_output_files(config, rml_df)']
    writers = [i for i, st in enumerate(body) if '_materialize_mapping_group_to_file' in norm(st)]
    others = [i for i, st in enumerate(body) if 'prepare_output_files' in norm(st) and i not in prep]
    ok = True
    if len(prep) != 1 or others:
        failures.append('__main__: expected exactly one top-level statement prepare_output_files(config, rml_df)')
        ok = False
    if not writers:
        failures.append('__main__: no use of _materialize_mapping_group_to_file found')
        ok = False
    before = bool(prep) and bool(writers) and prep[0] < min(writers)
    texts = [norm(st) for st in body]
    if "asserted_mapping_df = rml_df.loc[rml_df['triples_map_type'] == RML_TRIPLES_MAP_CLASS]" not in texts or \
            "mapping_groups = [group for _, group in asserted_mapping_df.groupby(by='mapping_partition')]" not in texts:
        failures.append('__main__: mapping_groups is not "asserted rules grouped by mapping_partition"')
    if 'rml_df, fnml_df = retrieve_mappings(config)' not in texts:
        failures.append('__main__: rml_df does not come from retrieve_mappings(config)')
    for i, st in enumerate(body):
        for n in ast.walk(st):
            if isinstance(n, ast.Call) and norm(n.func) in ('os.remove', 'os.unlink', 'open', 'shutil.rmtree'):
                failures.append('__main__: touches the file system directly: ' + norm(n)[:100])
    return ok and before


# ----------------------------------------------------------------------------------------------------

def generate(src, env, out, summary):
    failures = []
    # --- tables and constants ---------------------------------------------------------------------------
    ext = []
    for n in src.tree('constants.py').body:
        if isinstance(n, ast.Assign) and len(n.targets) == 1 and isinstance(n.targets[0], ast.Name) \
                and n.targets[0].id == 'OUTPUT_FORMAT_FILE_EXTENSION':
            if not isinstance(n.value, ast.Dict):
                failures.append('OUTPUT_FORMAT_FILE_EXTENSION is not a dict literal')
                break
            seen = {}
            for k, v in zip(n.value.keys, n.value.values):
                kk = env.get(k.id) if isinstance(k, ast.Name) else k.value if isinstance(k, ast.Constant) else None
                vv = env.get(v.id) if isinstance(v, ast.Name) else v.value if isinstance(v, ast.Constant) else None
                if not isinstance(kk, str) or not isinstance(vv, str):
                    failures.append('unresolvable entry in OUTPUT_FORMAT_FILE_EXTENSION: ' + norm(k))
                    continue
                if kk in seen:
                    ext[seen[kk]] = (kk, vv)
                else:
                    seen[kk] = len(ext)
                    ext.append((kk, vv))
    if not ext:
        failures.append('OUTPUT_FORMAT_FILE_EXTENSION not found or empty')
    valid_formats = env.get('VALID_OUTPUT_FORMATS')
    if not (isinstance(valid_formats, list) and all(isinstance(x, str) for x in valid_formats)):
        failures.append('VALID_OUTPUT_FORMATS is not a list of strings')
        valid_formats = []

    cenv, dicts = config_env(src, env)
    consts = {}
    for nm in ('OUTPUT_FILE', 'OUTPUT_DIR', 'DEFAULT_OUTPUT_FILE', 'DEFAULT_OUTPUT_DIR'):
        if nm not in cenv:
            failures.append(f'config.py: constant {nm} not found')
        consts[nm] = cenv.get(nm, '')

    def option_default(opt_const):
        """(empty value kept?, default) from the two CONFIGURATION_OPTIONS_* dict literals"""
        found = []
        for dname, keep in (('CONFIGURATION_OPTIONS_EMPTY_VALID', True), ('CONFIGURATION_OPTIONS_EMPTY_NON_VALID', False)):
            d = dicts.get(dname)
            if d is None:
                failures.append(f'config.py: {dname} is not a dict literal')
                continue
            for k, v in zip(d.keys, d.values):
                if isinstance(k, ast.Name) and k.id == opt_const:
                    val = cenv.get(v.id) if isinstance(v, ast.Name) else v.value if isinstance(v, ast.Constant) else None
                    if not isinstance(val, str):
                        failures.append(f'config.py: default of {opt_const} is not a string constant')
                        val = ''
                    found.append((keep, val))
        if len(found) != 1:
            failures.append(f'config.py: {opt_const} listed {len(found)} times in the CONFIGURATION_OPTIONS_* tables')
            return True, ''
        return found[0]
    of_keep, of_default = option_default('OUTPUT_FILE')
    od_keep, od_default = option_default('OUTPUT_DIR')
    try:
        cc = src.func('config.py', 'complete_configuration_with_defaults', cls='Config')
        s = norm(strip_doc(cc.body))
        want = ('for configuration_option, configuration_option_default in CONFIGURATION_OPTIONS_EMPTY_VALID.items(): '
                'if not _is_option_provided(self, configuration_option, empty_value_is_valid=True): '
                'self.set(self.configuration_section, configuration_option, str(configuration_option_default)) '
                'for configuration_option, configuration_option_default in CONFIGURATION_OPTIONS_EMPTY_NON_VALID.items(): '
                'if not _is_option_provided(self, configuration_option): '
                'self.set(self.configuration_section, configuration_option, str(configuration_option_default))')
        if want not in s:
            failures.append('complete_configuration_with_defaults: the two default-completion loops are not recognised')
        for g, o in (('get_output_dir', 'OUTPUT_DIR'), ('get_output_file', 'OUTPUT_FILE'), ('get_output_format', 'OUTPUT_FORMAT')):
            b = norm(strip_doc(src.func('config.py', g, cls='Config').body))
            if b != f'return self.get(self.configuration_section, {o})':
                failures.append(f'Config.{g} is not a plain getter of {o}')
    except KeyError as e:
        failures.append(f'function not found: {e}')

    # --- get_output_file_path --------------------------------------------------------------------------
    used = {}
    try:
        body = translate_get_output_file_path(src, cenv, used)
        fn_ok = True
    except (Fail, KeyError) as e:
        failures.append(f'get_output_file_path: cannot translate: {e}')
        body = ['  throw PyErr.typeError']
        fn_ok = False

    # --- shapes ----------------------------------------------------------------------------------------
    try:
        sh = shape_prepare(src, failures)
    except KeyError as e:
        failures.append(f'function not found: {e}')
        sh = {'dirMakedirs': False, 'dirRemove': 'none', 'fileCreateDirs': False, 'fileRemove': False}
    try:
        strips = shape_create_dirs(src, failures)
    except KeyError as e:
        failures.append(f'function not found: {e}')
        strips = True
    try:
        mode, suffix = shape_writer(src, failures)
    except KeyError as e:
        failures.append(f'function not found: {e}')
        mode, suffix = 'a', ' .'
    try:
        shape_group_writer(src, failures)
    except KeyError as e:
        failures.append(f'function not found: {e}')
    try:
        before = shape_main(src, failures)
    except (KeyError, OSError) as e:
        failures.append(f'__main__: {e}')
        before = False

    b = lambda x: 'true' if x else 'false'
    lines = [HEADER, 'import MorphKgc.Py.Path', '', 'namespace Gen', 'open Py', '',
             '/-- `OUTPUT_FORMAT_FILE_EXTENSION` of constants.py, in source order -/',
             'def outputFormatFileExtension : List (Str × Str) := ' + lean_pairs(ext) if ext else
             'def outputFormatFileExtension : List (Str × Str) := []', '',
             '/-- `VALID_OUTPUT_FORMATS` -/',
             'def validOutputFormats : List Str := [' + ', '.join(lean_str(x) for x in valid_formats) + ']', '',
             '/-- option names and defaults (config.py) -/',
             f'def optOutputFile : Str := {lean_str(consts["OUTPUT_FILE"])}',
             f'def optOutputDir : Str := {lean_str(consts["OUTPUT_DIR"])}',
             f'def defaultOutputFile : Str := {lean_str(consts["DEFAULT_OUTPUT_FILE"])}',
             f'def defaultOutputDir : Str := {lean_str(consts["DEFAULT_OUTPUT_DIR"])}', '',
             '/-- value used for an absent option / is an empty value kept (CONFIGURATION_OPTIONS_EMPTY_VALID)? -/',
             f'def outputFileDefault : Str := {lean_str(of_default)}',
             f'def outputFileEmptyKept : Bool := {b(of_keep)}',
             f'def outputDirDefault : Str := {lean_str(od_default)}',
             f'def outputDirEmptyKept : Bool := {b(od_keep)}', '']
    for nm in sorted(used):
        lines.append(f'def K_{nm} : Str := {lean_str(used[nm])}')
    lines += ['',
              '/-- translation of `Config.get_output_file_path(self, mapping_group=None)`; the three getters are parameters -/',
              'def getOutputFilePath (outputFormat outputDir outputFile : Str) (mappingGroup : Option Str) : Except PyErr Str := do']
    lines += body
    lines += ['',
              '/-- which group files `prepare_output_files` removes in output_dir mode -/',
              'inductive RemoveScope',
              '  /-- `set(rml_df[\'mapping_partition\'])`: the labels of every rule of the current rule table -/',
              '  | allRuleGroups',
              '  /-- only the labels of asserted rules (the groups that are written) -/',
              '  | assertedGroups',
              '  | none',
              '  deriving DecidableEq, Repr', '',
              'structure PrepareShape where',
              '  /-- output_dir mode: `if not os.path.exists(output_dir): os.makedirs(output_dir)` -/',
              '  dirMakedirs : Bool',
              '  /-- output_dir mode: `if os.path.exists(p): os.remove(p)` for `p = get_output_file_path(g)`, g in the scope -/',
              '  dirRemove : RemoveScope',
              '  /-- output_file mode: `create_dirs_in_path(get_output_file_path())` -/',
              '  fileCreateDirs : Bool',
              '  /-- output_file mode: `if os.path.exists(p): os.remove(p)` -/',
              '  fileRemove : Bool',
              '  deriving DecidableEq, Repr', '',
              '/-- shape of `utils.prepare_output_files` -/',
              f'def prepareShape : PrepareShape := {{ dirMakedirs := {b(sh["dirMakedirs"])}, dirRemove := .{sh["dirRemove"]}, '
              f'fileCreateDirs := {b(sh["fileCreateDirs"])}, fileRemove := {b(sh["fileRemove"])} }}', '',
              '/-- `create_dirs_in_path` applies `str.strip()` to the path before taking `os.path.dirname` -/',
              f'def createDirsStrips : Bool := {b(strips)}', '',
              'inductive OpenMode | append | write',
              '  deriving DecidableEq, Repr', '',
              '/-- mode of the `open` call in `utils.triples_to_file` -/',
              f'def openMode : OpenMode := .{"append" if mode == "a" else "write"}', '',
              "/-- text written after each triple, before the newline (`f'{triple} .\\n'`) -/",
              f'def lineSuffix : Str := {lean_str(suffix)}', '',
              '/-- `__main__` calls `prepare_output_files(config, rml_df)` once, before any group is written -/',
              f'def prepareBeforeWrite : Bool := {b(before)}', '',
              f'def outputTranslated : Bool := {b(not failures)}', '',
              'end Gen', '']
    write_if_changed(os.path.join(out, 'Output.lean'), '\n'.join(lines))
    summary['output'] = {'ext': ext, 'consts': consts, 'output_file': {'empty_kept': of_keep, 'default': of_default},
                         'output_dir': {'empty_kept': od_keep, 'default': od_default},
                         'get_output_file_path': {'translated': fn_ok, 'lean': body},
                         'prepare': sh, 'create_dirs_strips': strips, 'open_mode': mode, 'line_suffix': suffix,
                         'prepare_before_write': before, 'failures': failures}
