"""C12: how a configuration with several data-source sections / mapping files becomes ONE rule table -> Gen/ParseOrder.lean

Read from mapping/mapping_parser.py and config.py (anything else is a translation failure, never guessed):

  parse_mappings            the sequence of `self.<step>()` calls before partitioning            -> Gen.parseOrder
  _preprocess_mappings      the sequence of its steps; `drop_duplicates()` must take no argument  -> Gen.preprocessOrder
  _get_from_r2_rml          one loop over `self.config.get_data_sources_sections()`, every section parsed with
                            `_parse_data_source_mapping_files(section_name)` and concatenated behind the accumulated table
  _parse_data_source_mapping_files   one graph, one loop over ALL `mapping_file_paths`, result =
                            `_transform_mappings_into_dataframe(mapping_graph, section_name)`
  _transform_mappings_into_dataframe `rml_df['source_name'] = section_name`
  validate_mappings         `self.rml_df[[cols]].drop_duplicates()`, repeated elements of column `triples_map_id`, `raise` when any
  _expand_rml_star          id = '#TM' + position in the WHOLE table; the rewriting of `subject_map_value` / `object_map_value`
                            through `tm_to_id_dict` either unconditional (as it is) or restricted to referencing / quoted maps
                            (`Gen.expandStarGuarded`)
  config.get_data_sources_sections   `list(set(self.sections()) - {self.configuration_section})`
  config.get_mappings_files          loop over every element of `self.get(source_section, MAPPINGS).split(',')`
"""
import ast
import os

from extract import HEADER, lean_str, write_if_changed

MP = 'mapping/mapping_parser.py'
CF = 'config.py'

STEP = {'_get_from_r2_rml': 'getFromR2rml', '_preprocess_mappings': 'preprocess', '_infer_datatypes': 'inferDatatypes',
        'validate_mappings': 'validate'}
PSTEP = {'_complete_rml_source_with_config_file_paths': 'completeSourceFilePaths', '_complete_source_types': 'completeSourceTypes',
         '_remove_delimiters_from_mappings': 'removeDelimiters', '_normalize_rml_star': 'normalizeRmlStar',
         '_remove_self_joins_no_condition': 'removeSelfJoins'}


def _norm(node):
    return ' '.join(ast.unparse(node).split())


def _body(fn):
    return [st for st in fn.body if not (isinstance(st, ast.Expr) and isinstance(st.value, ast.Constant))]


def _self_call(st):
    """`self.name()` as an expression statement -> name"""
    if isinstance(st, ast.Expr) and isinstance(st.value, ast.Call) and isinstance(st.value.func, ast.Attribute) \
            and isinstance(st.value.func.value, ast.Name) and st.value.func.value.id == 'self' \
            and not st.value.args and not st.value.keywords:
        return st.value.func.attr
    return None


def _all_self_calls(fn):
    out = []
    for n in ast.walk(fn):
        if isinstance(n, ast.Call) and isinstance(n.func, ast.Attribute) and isinstance(n.func.value, ast.Name) and n.func.value.id == 'self':
            out.append(n.func.attr)
    return out


def parse_order(fn, fl):
    order = []
    for st in _body(fn):
        name = _self_call(st)
        if name is not None:
            if name in STEP:
                order.append(STEP[name])
            else:
                fl.append(f'parse_mappings: unknown step self.{name}()')
            continue
        text = _norm(st)
        ok = (text.startswith('logging.') or text.startswith('self.rml_df = self.rml_df.infer_objects(')
              or text.startswith('mapping_partitioner = MappingPartitioner(') or text == 'self.rml_df = mapping_partitioner.partition_mappings()'
              or text == 'return (self.rml_df, self.fnml_df)')
        if not ok:
            fl.append('parse_mappings: unrecognised statement: ' + text[:160])
    calls = [c for c in _all_self_calls(fn) if c in STEP]
    for k in STEP:
        if calls.count(k) != 1 or order.count(STEP[k]) != 1:
            fl.append(f'parse_mappings: self.{k}() is not called exactly once at top level')
    return order


def preprocess_order(fn, fl):
    order = []
    for st in _body(fn):
        name = _self_call(st)
        text = _norm(st)
        if name is not None:
            if name in PSTEP:
                order.append(PSTEP[name])
            else:
                fl.append(f'_preprocess_mappings: unknown step self.{name}()')
        elif text == 'self.rml_df = self.rml_df.drop_duplicates()':
            order.append('dropDuplicates')
        elif 'drop_duplicates' in text:
            fl.append('_preprocess_mappings: drop_duplicates is not over all columns / keeps something else than the first: ' + text[:160])
        else:
            fl.append('_preprocess_mappings: unrecognised statement: ' + text[:160])
    for k in list(PSTEP.values()) + ['dropDuplicates']:
        if order.count(k) != 1:
            fl.append(f'_preprocess_mappings: step {k} occurs {order.count(k)} times')
    return order


def check_sections_loop(fn, fl):
    body = _body(fn)
    loops = [st for st in body if isinstance(st, ast.For)]
    if len(loops) != 1 or _norm(loops[0].iter) != 'self.config.get_data_sources_sections()' or _norm(loops[0].target) != 'section_name' \
            or loops[0].orelse:
        fl.append('_get_from_r2_rml: not exactly one loop `for section_name in self.config.get_data_sources_sections()`')
        return
    texts = [_norm(st) for st in loops[0].body]
    want = ['data_source_rml_df, data_source_fnml_df = self._parse_data_source_mapping_files(section_name)',
            'self.rml_df = pd.concat([self.rml_df, data_source_rml_df])',
            'self.fnml_df = pd.concat([self.fnml_df, data_source_fnml_df])']
    if not texts or texts[0] != want[0] or sorted(texts[1:]) != sorted(want[1:]):
        fl.append('_get_from_r2_rml: loop body is not parse + concat behind the accumulated table: ' + ' | '.join(texts)[:300])
    rest = [_norm(st) for st in body if not isinstance(st, ast.For)]
    if rest != ['self.rml_df = self.rml_df.reset_index(drop=True)', 'self.fnml_df = self.fnml_df.reset_index(drop=True)']:
        fl.append('_get_from_r2_rml: statements outside the loop: ' + ' | '.join(rest)[:300])


def check_files_loop(fn, fl):
    body = _body(fn)
    # the one graph and the list of files, whatever the locals are called
    gvars = [st.targets[0].id for st in ast.walk(fn) if isinstance(st, ast.Assign) and len(st.targets) == 1 and isinstance(st.targets[0], ast.Name)
             and _norm(st.value) == 'rdflib.Graph()']
    pvars = [st.targets[0].id for st in body if isinstance(st, ast.Assign) and len(st.targets) == 1 and isinstance(st.targets[0], ast.Name)
             and _norm(st.value) == 'self.config.get_mappings_files(section_name)']
    if len(gvars) != 1 or not body or _norm(body[0]) != f'{gvars[0] if gvars else "?"} = rdflib.Graph()':
        fl.append('_parse_data_source_mapping_files: not exactly one fresh graph `<g> = rdflib.Graph()` created first')
        return
    if len(pvars) != 1:
        fl.append('_parse_data_source_mapping_files: `<paths> = self.config.get_mappings_files(section_name)` not found exactly once')
        return
    g, pv = gvars[0], pvars[0]
    texts = [_norm(st) for st in body]
    loops = [st for st in body if isinstance(st, ast.For)]
    if len(loops) != 1 or _norm(loops[0].iter) != pv or not isinstance(loops[0].target, ast.Name) or loops[0].orelse:
        fl.append('_parse_data_source_mapping_files: not exactly one loop over all the mapping files of the section')
    else:
        f = loops[0].target.id
        lb = loops[0].body
        ok = len(lb) == 1 and isinstance(lb[0], ast.If) and len(lb[0].body) == 1 and _norm(lb[0].body[0]) == f'{g} += load_yarrrml({f})' \
            and len(lb[0].orelse) == 1 and isinstance(lb[0].orelse[0], ast.Try)
        if ok:
            tr = lb[0].orelse[0]
            ok = [_norm(s) for s in tr.body] == [f"{g}.parse({f}, format=os.path.splitext({f})[1][1:].strip())"] \
                and len(tr.handlers) == 1 and [_norm(s) for s in tr.handlers[0].body] == [f'{g}.parse({f})'] \
                and not tr.orelse and not tr.finalbody
        if not ok:
            fl.append('_parse_data_source_mapping_files: the loop does not load every file into the one graph: ' + _norm(loops[0])[:300])
        for n in ast.walk(loops[0]):
            if isinstance(n, (ast.Break, ast.Continue, ast.Return)):
                fl.append('_parse_data_source_mapping_files: break/continue/return inside the file loop')
    if not texts or texts[-1] != f'return _transform_mappings_into_dataframe({g}, section_name)':
        fl.append('_parse_data_source_mapping_files: result is not `_transform_mappings_into_dataframe(<g>, section_name)`')
    for st in body[1:]:
        if isinstance(st, ast.Assign) and _norm(st.targets[0]) == g:
            v = st.value
            if not (isinstance(v, ast.Call) and isinstance(v.func, ast.Name) and len(v.args) == 1 and _norm(v.args[0]) == g):
                fl.append('_parse_data_source_mapping_files: the graph is re-assigned from something else: ' + _norm(st)[:160])


def check_source_name(fn, fl):
    texts = [_norm(st) for st in _body(fn)]
    if texts.count("rml_df['source_name'] = section_name") != 1:
        fl.append("_transform_mappings_into_dataframe: `rml_df['source_name'] = section_name` not found exactly once")
    a = [x.arg for x in fn.args.args]
    if a != ['mapping_graph', 'section_name']:
        fl.append(f'_transform_mappings_into_dataframe: parameters {a}')


def validate_shape(fn, fl):
    cols, col = [], ''
    body = _body(fn)
    stmts = [st for st in body if not (isinstance(st, ast.Expr))]
    got = {'aux': False, 'rep': False, 'raise': False}
    aux, rep = None, None
    for st in stmts:
        t = _norm(st)
        v = st.value if isinstance(st, ast.Assign) else None
        if isinstance(st, ast.Assign) and len(st.targets) == 1 and isinstance(st.targets[0], ast.Name) and isinstance(v, ast.Call) \
                and isinstance(v.func, ast.Attribute) and v.func.attr == 'drop_duplicates' and not v.args and not v.keywords \
                and isinstance(v.func.value, ast.Subscript) and _norm(v.func.value.value) == 'self.rml_df' \
                and isinstance(v.func.value.slice, ast.List) \
                and all(isinstance(e, ast.Constant) and isinstance(e.value, str) for e in v.func.value.slice.elts):
            cols = [e.value for e in v.func.value.slice.elts]
            aux = st.targets[0].id
            got['aux'] = True
        elif isinstance(st, ast.Assign) and len(st.targets) == 1 and isinstance(st.targets[0], ast.Name) and aux \
                and t.startswith(f'{st.targets[0].id} = get_repeated_elements_in_list(list({aux}['):
            w = st.value.args[0].args[0]
            if isinstance(w, ast.Call) and _norm(w).endswith(".astype(str)") and isinstance(w.func.value, ast.Subscript) \
                    and isinstance(w.func.value.slice, ast.Constant):
                col = w.func.value.slice.value
                rep = st.targets[0].id
                got['rep'] = True
        elif rep and t == f'{rep} = [tm_id for tm_id in {rep}]':
            pass
        elif isinstance(st, ast.If) and rep and _norm(st.test) == f'len({rep}) > 0' and not st.orelse \
                and len(st.body) == 1 and isinstance(st.body[0], ast.Raise):
            got['raise'] = True
        else:
            fl.append('validate_mappings: unrecognised statement: ' + t[:160])
    for k, v in got.items():
        if not v:
            fl.append(f'validate_mappings: part `{k}` of the duplicate check not recognised')
    if got['aux'] and cols != ['source_name', 'triples_map_id']:
        fl.append(f'validate_mappings: compares columns {cols}, expected [source_name, triples_map_id]')
    if got['rep'] and col != 'triples_map_id':
        fl.append(f'validate_mappings: repeated elements of column {col!r}, expected triples_map_id')
    return cols, col


UNGUARDED = ["self.rml_df['{p}_map_value'] = self.rml_df['{p}_map_value'].map(tm_to_id_dict).fillna(self.rml_df['{p}_map_value'])"]


def expand_star_shape(fn, fl):
    """-> (prefix, guarded)"""
    texts = [_norm(st) for st in _body(fn)]
    prefix = None
    if "self.rml_df.insert(0, 'id', self.rml_df.reset_index(drop=True).index.astype(str))" not in texts:
        fl.append('_expand_rml_star: rule ids are not the row positions of the whole table')
    for st in _body(fn):
        if isinstance(st, ast.Assign) and _norm(st.targets[0]) == "self.rml_df['id']":
            v = st.value
            if isinstance(v, ast.BinOp) and isinstance(v.op, ast.Add) and isinstance(v.left, ast.Constant) and isinstance(v.left.value, str) \
                    and _norm(v.right) == "self.rml_df['id']":
                prefix = v.left.value
    if prefix is None:
        fl.append("_expand_rml_star: `self.rml_df['id'] = <prefix> + self.rml_df['id']` not found")
    if "self.rml_df['triples_map_id'] = self.rml_df['id']" not in texts:
        fl.append("_expand_rml_star: `self.rml_df['triples_map_id'] = self.rml_df['id']` not found")
    if 'id_to_tm_dict = dict(zip(self.rml_df[\'id\'], self.rml_df[\'triples_map_id\']))' not in texts:
        fl.append('_expand_rml_star: id_to_tm_dict is not built from the whole table')
    # tm_to_id_dict: first rule of each triples map
    loop_ok = False
    for st in _body(fn):
        if isinstance(st, ast.For) and _norm(st.iter) == 'id_to_tm_dict.items()':
            loop_ok = _norm(st) == _norm(ast.parse(
                'for rule_id, rule_tm in id_to_tm_dict.items():\n'
                '    if rule_tm in tm_to_id_list_dict:\n        tm_to_id_list_dict[rule_tm].append(rule_id)\n'
                '    else:\n        tm_to_id_dict[rule_tm] = rule_id\n        tm_to_id_list_dict[rule_tm] = [rule_id]\n').body[0])
    if not loop_ok:
        fl.append('_expand_rml_star: tm_to_id_dict is not "first rule of each triples map"')
    guarded = None
    un = [t for p in ('subject', 'object') for t in [UNGUARDED[0].format(p=p)]]
    if all(t in texts for t in un):
        guarded = False
    else:
        for st in _body(fn):
            if isinstance(st, ast.For) and _norm(st.iter) in ("['subject', 'object']", "('subject', 'object')") and _norm(st.target) == 'position':
                b = [_norm(x) for x in st.body]
                g = ["references_tm = self.rml_df[f'{position}_map_type'].isin([RML_PARENT_TRIPLES_MAP, RML_QUOTED_TRIPLES_MAP])",
                     "self.rml_df.loc[references_tm, f'{position}_map_value'] = self.rml_df.loc[references_tm, f'{position}_map_value']"
                     ".map(tm_to_id_dict).fillna(self.rml_df.loc[references_tm, f'{position}_map_value'])"]
                if b == g:
                    guarded = True
    if guarded is None:
        fl.append('_expand_rml_star: the rewriting of subject_map_value / object_map_value through tm_to_id_dict has an unrecognised shape')
        guarded = False
    return prefix or '', guarded


def check_config(src, fl):
    try:
        fn = src.func(CF, 'get_data_sources_sections', cls='Config')
        if [_norm(s) for s in _body(fn)] != ['return list(set(self.sections()) - {self.configuration_section})']:
            fl.append('config.get_data_sources_sections: not `list(set(self.sections()) - {self.configuration_section})`')
    except KeyError:
        fl.append('config.get_data_sources_sections not found')
    try:
        fn = src.func(CF, 'get_mappings_files', cls='Config')
        body = _body(fn)
        loops = [st for st in body if isinstance(st, ast.For)]
        if len(loops) != 1 or _norm(loops[0].iter) != "self.get(source_section, MAPPINGS).split(',')" or loops[0].orelse:
            fl.append("config.get_mappings_files: not one loop over `self.get(source_section, MAPPINGS).split(',')`")
        else:
            for n in ast.walk(loops[0]):
                if isinstance(n, (ast.Break, ast.Continue, ast.Return)):
                    fl.append('config.get_mappings_files: break/continue/return inside the loop')
            lb = loops[0].body
            if not (len(lb) == 1 and isinstance(lb[0], ast.If) and _norm(lb[0].test) == 'os.path.isfile(mapping_path)'
                    and [_norm(s) for s in lb[0].body] == ['mapping_file_paths.append(mapping_path)']):
                fl.append('config.get_mappings_files: a path that is a file is not appended as it is')
        texts = [_norm(st) for st in body if not isinstance(st, ast.For)]
        if texts != ['mapping_file_paths = []', 'return mapping_file_paths']:
            fl.append('config.get_mappings_files: statements around the loop: ' + ' | '.join(texts)[:200])
    except KeyError:
        fl.append('config.get_mappings_files not found')


def generate(src, env, out, summary):
    fl = []
    order, porder, cols, col, prefix, guarded = [], [], [], '', '', False
    try:
        order = parse_order(src.func(MP, 'parse_mappings', cls='MappingParser'), fl)
        porder = preprocess_order(src.func(MP, '_preprocess_mappings', cls='MappingParser'), fl)
        check_sections_loop(src.func(MP, '_get_from_r2_rml', cls='MappingParser'), fl)
        check_files_loop(src.func(MP, '_parse_data_source_mapping_files', cls='MappingParser'), fl)
        check_source_name(src.func(MP, '_transform_mappings_into_dataframe'), fl)
        cols, col = validate_shape(src.func(MP, 'validate_mappings', cls='MappingParser'), fl)
        prefix, guarded = expand_star_shape(src.func(MP, '_expand_rml_star', cls='MappingParser'), fl)
        if prefix != '#TM':
            fl.append(f'_expand_rml_star: id prefix is {prefix!r}, the model uses #TM')
        # _normalize_rml_star must call _expand_rml_star (its loop is the fixpoint iteration for quoted maps)
        ns = src.func(MP, '_normalize_rml_star', cls='MappingParser')
        if '_expand_rml_star' not in _all_self_calls(ns):
            fl.append('_normalize_rml_star does not call _expand_rml_star')
        check_config(src, fl)
    except KeyError as e:
        fl.append(f'function not found: {e}')
    lines = [HEADER, 'import MorphKgc.Model.Sections', '', 'namespace Gen', 'open Model.Sections', '',
             '/-- the calls of `parse_mappings` before partitioning, in source order -/',
             'def parseOrder : List Step := [' + ', '.join('.' + s for s in order) + ']', '',
             '/-- the calls of `_preprocess_mappings`, in source order -/',
             'def preprocessOrder : List PStep := [' + ', '.join('.' + s for s in porder) + ']', '',
             '/-- `_expand_rml_star` rewrites only the values of referencing / quoted maps -/',
             f'def expandStarGuarded : Bool := {"true" if guarded else "false"}', '',
             '/-- columns compared by `validate_mappings` -/',
             'def validateColumns : List (List Char) := [' + ', '.join(lean_str(c) for c in cols) + ']', '',
             f'def parseOrderTranslated : Bool := {"true" if not fl else "false"}', '', 'end Gen', '']
    write_if_changed(os.path.join(out, 'ParseOrder.lean'), '\n'.join(lines))
    summary['parse_order'] = {'order': order, 'preprocess': porder, 'guarded': guarded, 'validate_columns': cols, 'failures': fl}
