"""Part: the scan loops of mapping_partitioner.py, translated body by body -> Gen/PartFuncs.lean

Both partitioning algorithms are `sort_values(by=[…])` followed by `for i, rml_rule in <df>.iterrows():` loops that carry a few
scalars (`current_group`, `current_invariant`, `current_literal_type`, `current_global_group`) and write one cell of the row
(`<df>.at[i, '<col>'] = …`).  Each loop BODY is translated (tools/gen/Core.py's statement translator) into a pure Lean step function
  step : carried scalars → row → carried scalars × written cell
together with the `by=[…]` keys of the preceding sort, the initial values of the carried scalars and the shape of the
`enforce_invariant_non_subset` test.  `Props/PartFuncs.lean` proves every step equal to the model's `Model.scanStep` (with the
group-boundary reset for the MAXIMAL passes), so the C02/C03 theorems about the scan are theorems about the loops as written.
The body of the `_get_term_invariants` loop is translated the same way (`get_rml_rule(self.rml_df, …)` binds a second row).
"""
import ast
import os

from extract import HEADER, lean_str, write_if_changed
import gen.Core as C
from gen.Core import Fail, Tr, LEAN_TY, strip_doc

POS = {'S': 'subject', 'P': 'predicate', 'O': 'object', 'G': 'graph'}


def is_iterrows(st, frame_src):
    return isinstance(st, ast.For) and isinstance(st.target, ast.Tuple) and len(st.target.elts) == 2 \
        and all(isinstance(x, ast.Name) for x in st.target.elts) and isinstance(st.iter, ast.Call) \
        and isinstance(st.iter.func, ast.Attribute) and st.iter.func.attr == 'iterrows' and ast.unparse(st.iter.func.value) == frame_src \
        and not st.orelse


def sort_keys(st, frame_src):
    """`<df>.sort_values(by=<str | [str…]>, inplace=True, ascending=True)` -> list of column names, else None"""
    if not (isinstance(st, ast.Expr) and isinstance(st.value, ast.Call) and isinstance(st.value.func, ast.Attribute)
            and st.value.func.attr == 'sort_values' and ast.unparse(st.value.func.value) == frame_src and not st.value.args):
        return None
    kws = {k.arg: k.value for k in st.value.keywords}
    if set(kws) != {'by', 'inplace', 'ascending'} or ast.unparse(kws['inplace']) != 'True' or ast.unparse(kws['ascending']) != 'True':
        raise Fail(f'sort_values keywords {ast.unparse(st)[:80]}')
    by = kws['by']
    if isinstance(by, ast.Constant) and isinstance(by.value, str):
        return [by.value]
    if isinstance(by, ast.List) and all(isinstance(x, ast.Constant) and isinstance(x.value, str) for x in by.elts):
        return [x.value for x in by.elts]
    raise Fail(f'sort_values by= {ast.unparse(by)[:60]}')


def enforce_shape(st, frame_src, env):
    """`enforce_invariant_non_subset = set(<df>['col']) == {CONST}` -> (col, const value), else None"""
    if isinstance(st, ast.Assign) and len(st.targets) == 1 and isinstance(st.targets[0], ast.Name) \
            and isinstance(st.value, ast.Compare) and isinstance(st.value.left, ast.Call) and ast.unparse(st.value.left.func) == 'set':
        v = st.value
        if isinstance(v, ast.Compare) and len(v.ops) == 1 and isinstance(v.ops[0], ast.Eq) and isinstance(v.left, ast.Call) \
                and ast.unparse(v.left.func) == 'set' and len(v.left.args) == 1 and isinstance(v.left.args[0], ast.Subscript) \
                and ast.unparse(v.left.args[0].value) == frame_src and isinstance(v.left.args[0].slice, ast.Constant) \
                and isinstance(v.comparators[0], ast.Set) and len(v.comparators[0].elts) == 1 \
                and isinstance(v.comparators[0].elts[0], ast.Name) and isinstance(env.get(v.comparators[0].elts[0].id), str):
            return st.targets[0].id, v.left.args[0].slice.value, env[v.comparators[0].elts[0].id]
        raise Fail(f'{st.targets[0].id} = {ast.unparse(v)[:80]}')
    return None


def translate_body(loop, env, name, frame_src, STATE_TYPES, rules2=None, rules2_binding=None, translated=()):
    """loop body -> (lean def text, state variable names in order, written cells in order)"""
    i_var, r_var = loop.target.elts[0].id, loop.target.elts[1].id
    used = {n.id for st in loop.body for n in ast.walk(st) if isinstance(n, ast.Name)}
    params = [(k, t) for k, t in STATE_TYPES.items() if k in used]
    tr = Tr(env, params, translated=translated)
    tr.name, tr.monad, tr.raise_as, tr.helpers, tr.pending = name, None, None, [], []
    tr.extra, tr.extra_args = '', ''
    tr.param_binders = [(tr.v(p), t) for p, t in params]
    tr.rule = r_var
    tr.rules2 = dict(rules2 or {})
    tr.rules2_binding = dict(rules2_binding or {})
    tr.at_index, tr.at_frames = i_var, {frame_src}
    tr.opt_fields = {'literal_type'}
    decl = tr.declare(loop.body)
    lines, monadic, ends_raise = tr.block(loop.body, '  ')
    if monadic or ends_raise:
        raise Fail('loop body is not pure')
    state = [n for n, _ in tr.param_binders if n in [x for x, _ in decl]]
    outs = [n for n, _ in decl if n.startswith('o_')]
    other = [n for n, _ in decl if n not in state and n not in outs]
    if other:
        raise Fail(f'loop body assigns local variables {other}')
    d = dict(decl)
    ret = state + outs
    rty = ' × '.join(LEAN_TY[d[n]] for n in ret)
    binders = ' '.join(f'({n} : {LEAN_TY[t]})' for n, t in tr.param_binders)
    extra = ' '.join(f'({v} : PyPRule)' for v in tr.rules2.values())
    pre = [f'  let {n} : Str := []' for n in outs]
    text = (f'def {name} {binders} (rule : PyPRule) {extra} : {rty} :=\n' + '\n'.join(pre + lines) +
            '\n  (' + ', '.join(ret) + ')')
    return text, [p for p, _ in params], state, outs


def generate(src, env, out, summary):
    failures, defs, info = [], [], {}
    C.RULE_FIELDS.clear()
    C.USED_CONSTS.clear()
    meta = []      # (lean name, sort keys, initial state, enforce shape)

    def handle(body, frame_src, prefix, label_of):
        """walk a statement list: remember the last sort / initialisations / enforce test, translate every iterrows loop"""
        keys, init, enforce, types = None, {}, None, {}
        for st in body:
            k = sort_keys(st, frame_src)
            if k is not None:
                keys, enforce = k, None
                continue
            e = enforce_shape(st, frame_src, env)
            if e is not None:
                enforce = e[1:]
                types[e[0]] = 'bool'
                continue
            if isinstance(st, ast.Assign) and len(st.targets) == 1 and isinstance(st.targets[0], ast.Name):
                v, nm = st.value, st.targets[0].id
                if isinstance(v, ast.Constant) and isinstance(v.value, int) and not isinstance(v.value, bool):
                    init[nm], types[nm] = str(v.value), 'nat'
                elif isinstance(v, ast.Name) and isinstance(env.get(v.id), str):
                    init[nm], types[nm] = lean_str(env[v.id]), 'str'
                elif isinstance(v, ast.Subscript) and isinstance(v.value, ast.Attribute) and v.value.attr == 'at' \
                        and ast.unparse(v.value.value) == frame_src:
                    init[nm], types[nm] = 'expr:' + ast.unparse(v), 'str'
                else:
                    raise Fail(f'statement before a loop: {ast.unparse(st)[:70]}')
                continue
            if is_iterrows(st, frame_src):
                nm = prefix + label_of(st, keys)
                text, params, state, outs = translate_body(st, env, nm, frame_src, dict(types))
                defs.append(f'/-- body of the `{prefix}` loop that follows `sort_values(by={keys})` -/\n' + text)
                meta.append((nm, keys, dict(init), enforce, params, state, outs, dict(types)))

    def pos_of_keys(keys):
        for p, w in POS.items():
            if keys and keys[-1] == w + '_invariant':
                return p
        raise Fail(f'cannot tell the position from the sort keys {keys}')

    # MAXIMAL: four `if position == 'X':` blocks inside `for position in position_ordering:`
    try:
        fn = src.func('mapping/mapping_partitioner.py', '_generate_maximal_partition_for_a_position_ordering')
        body = strip_doc(fn.body)
        if len(body) != 2 or not isinstance(body[0], ast.For) or ast.unparse(body[0].target) != 'position' or not isinstance(body[1], ast.Return):
            raise Fail('shape of _generate_maximal_partition_for_a_position_ordering')
        outer = body[0].body
        pre = [st for st in outer if not isinstance(st, ast.If)]
        blocks = [st for st in outer if isinstance(st, ast.If)]
        got = []
        for b in blocks:
            t = b.test
            if not (isinstance(t, ast.Compare) and ast.unparse(t.left) == 'position' and isinstance(t.ops[0], ast.Eq)
                    and isinstance(t.comparators[0], ast.Constant) and t.comparators[0].value in POS and not b.orelse):
                raise Fail(f'position block {ast.unparse(t)[:40]}')
            got.append(t.comparators[0].value)
            handle(pre + b.body, 'rml_df', 'maximal_', lambda st, keys, p=t.comparators[0].value: p)
        if sorted(got) != sorted(POS):
            raise Fail(f'position blocks {got}')
        info['maximal'] = got
    except (Fail, KeyError) as e:
        failures.append(f'maximal: {e}')

    # PARTIAL-AGGREGATIONS: four loops in sequence
    try:
        fn = src.func('mapping/mapping_partitioner.py', '_generate_partial_aggregations_partition', cls='MappingPartitioner')
        n0 = len(meta)
        handle(strip_doc(fn.body), 'self.rml_df', 'partial_', lambda st, keys: pos_of_keys(keys))
        got = [m[0][-1] for m in meta[n0:]]
        if got != ['S', 'P', 'O', 'G']:
            raise Fail(f'loops found for positions {got}')
        info['partial'] = got
    except (Fail, KeyError) as e:
        failures.append(f'partial: {e}')

    # _get_term_invariants: one loop, row-local, with the parent rule of a referencing object map
    try:
        fn = src.func('mapping/mapping_partitioner.py', '_get_term_invariants', cls='MappingPartitioner')
        loops = [st for st in strip_doc(fn.body) if is_iterrows(st, 'self.rml_df')]
        if len(loops) != 1:
            raise Fail(f'{len(loops)} loops')
        inits = [ast.unparse(st) for st in strip_doc(fn.body) if not is_iterrows(st, 'self.rml_df')]
        want = [f"self.rml_df['{w}_invariant'] = ''" for w in ['subject', 'predicate', 'object', 'graph']]
        if inits != want:
            raise Fail(f'initialisation of the invariant columns: {inits}')
        i_var = loops[0].target.elts[0].id
        r_var = loops[0].target.elts[1].id
        st = loops[0]
        # the written cells start as '' (the initialisation above): model them as the default of the step's outputs
        tr_name = 'term_invariants_step'
        # get_invariant_of_template raises: translate in Option
        tr = Tr(env, [], translated=())
        tr.name, tr.monad, tr.raise_as, tr.helpers, tr.pending = tr_name, 'Option', None, [], []
        tr.extra, tr.extra_args, tr.param_binders = '', '', []
        tr.rule = r_var
        tr.rules2 = {'parent_rml_rule': 'parent'}
        tr.rules2_binding = {'parent_rml_rule': f"get_rml_rule(self.rml_df, {r_var}['object_map_value'])"}
        tr.at_index, tr.at_frames = i_var, {'self.rml_df'}
        tr.opt_call = 'get_invariant_of_template'
        decl = tr.declare(st.body)
        lines, monadic, ends_raise = tr.block(st.body, '  ')
        outs = [n for n, _ in decl]
        if outs != ['o_subject_invariant', 'o_predicate_invariant', 'o_object_invariant', 'o_graph_invariant']:
            raise Fail(f'cells written: {outs}')
        text = (f'def {tr_name} (rule : PyPRule) (parent : PyPRule) : Option (Str × Str × Str × Str) := do\n'
                + '\n'.join([f'  let {n} : Str := []' for n in outs] + lines) + '\n  pure (' + ', '.join(outs) + ')')
        defs.append('/-- body of the loop of `_get_term_invariants` (`raise` of `get_invariant_of_template` is `none`; `parent` is\n'
                    '    `get_rml_rule(self.rml_df, rml_rule[\'object_map_value\'])`, evaluated only for referencing object maps) -/\n' + text)
        info['term_invariants'] = 'translated'
    except (Fail, KeyError) as e:
        failures.append(f'_get_term_invariants: {e}')

    fields = '\n'.join(f'  {f} : {"Option Str := none" if t == "opt" else "Str := []"}' for f, t in sorted(C.RULE_FIELDS.items()))
    consts = '\n'.join(f'def {k} : Str := {lean_str(v)}' for k, v in sorted(C.USED_CONSTS.items()))
    ok = not failures
    mt = []
    for nm, keys, init, enforce, params, state, outs, types in meta:
        mt.append(f'def {nm}_sortKeys : List Str := [' + ', '.join(lean_str(k) for k in (keys or [])) + ']')
        # initial values of the scalars the loop carries, in the order of the step's parameters (names do not enter)
        carried = [q for q in params if types.get(q) != 'bool' and q in init and not init[q].startswith('expr:')]
        for q in params:
            if q in init and init[q].startswith('expr:'):
                mt.append(f'-- {nm}: `{q}` starts as `{init[q][5:]}`')
        if carried:
            mt.append(f'def {nm}_init : ' + ' × '.join(LEAN_TY[types[q]] for q in carried) + ' := (' + ', '.join(init[q] for q in carried) + ')')
        mt.append(f'def {nm}_enforce : Option (Str × Str) := ' + (f'some ({lean_str(enforce[0])}, {lean_str(enforce[1])})' if enforce else 'none'))
    text = HEADER + f'''
import MorphKgc.Model.Partition
import MorphKgc.Gen.CoreFuncs

set_option linter.unusedVariables false

namespace Gen.Part
open Py

/-- one row of `rml_df` (with the auxiliary columns) as the loops read it -/
structure PyPRule where
{fields or "  unused : Unit := ()"}

/-- `str(x)` of a cell that can be NaN -/
def pyStrOpt : Option Str → Str
  | some s => s
  | none => "nan".toList

/-! values of morph_kgc.constants used below -/
{consts}

{(chr(10) * 2).join(defs) if ok else "-- translation failed: " + " | ".join(failures).replace(chr(10), " ")}

/-! the `by=` keys of the sort before each loop, the initial values of the carried scalars, the `set(df[col]) == {{CONST}}` test -/
{chr(10).join(mt) if ok else ""}

def partTranslated : Bool := {'true' if ok else 'false'}

end Gen.Part
'''
    write_if_changed(os.path.join(out, 'PartFuncs.lean'), text)
    summary['part'] = {'failures': failures, **info}
