"""C11: what makes the result a set computed row by row (materializer.py, data_source/*.py) -> Gen/RowIndep.lean

Generated (each from the AST of the working tree):
  * `dedupShape`: the `data = data.drop_duplicates(…)` statement of `_preprocess_data` — its `subset=` and `keep=`;
  * `sqlReadShape`: `get_sql_data` returns `pd.read_sql_query(sql_query, con=…, coerce_float=False)` and passes no typing argument;
  * `csvReadShape` / `excelReadShape` / `odsReadShape`: `dtype=str`, `keep_default_na=False`, `na_filter=False` (strings only: no column dtype);
  * `parquetShape` / `featherShape` / `orcShape`: the pandas reader's frame is passed through, no `dtype_backend=`;
  * `auditTemplate` / `auditFnml` / `auditRuleTerms`: every statement of `_materialize_template`, `_materialize_fnml_execution`,
    `_materialize_rml_rule_terms` that touches a data column is one of the element-wise forms
        df[k] = <expr>     with <expr> built from  df[k'] | scalar | <expr> + <expr> | <expr>.str.replace(s, s, regex=c) | <expr>.str.lower()
                                                   | <expr>.str.upper() | <expr>.str.strip() | <expr>.astype(str) | <expr>.apply(lambda x: f(x, scalars))
    and no `if` / `for` / `while` looks at the data (a test mentioning the frame is data-dependent control flow);
  * `frameStrip`: how the DataFrame branch of `get_ram_data` strips `"` from object columns — through `Series.apply` (pandas infers a new dtype for the
    result) or through a Series built with `dtype=object`;
  * `ruleBodyShape`: `_get_data` = reader, then `_preprocess_data`; in `_materialize_rml_rule` nothing but `_merge_data` changes the number of
    rows; the statement column is the row-wise concatenation `subject + ' ' + predicate + ' ' + object`.
A statement outside these forms is a translation failure (summary['rowindep']['failures']), never guessed.
"""
import ast
import os

from extract import HEADER, write_if_changed
from gen import C06

DF_NAMES = {'results_df', 'data', 'parent_data', 'merged_data', 'json_df', 'xml_df'}
STR_METHODS = {'replace', 'lower', 'upper', 'strip', 'lstrip', 'rstrip'}
DF_PASSING_CALLS = {'execute_fnml', '_materialize_template', '_materialize_fnml_execution', '_materialize_rml_rule_terms', '_materialize_rml_rule',
                    '_merge_data', '_get_data', '_preprocess_data', 'remove_null_values_from_dataframe'}


def _u(n):
    return ' '.join(ast.unparse(n).split())


def mentions_df(n):
    return any(isinstance(x, ast.Name) and x.id in DF_NAMES for x in ast.walk(n))


def is_df(n):
    return isinstance(n, ast.Name) and n.id in DF_NAMES


def is_col(n):
    """df[<scalar>]"""
    return isinstance(n, ast.Subscript) and is_df(n.value) and not mentions_df(n.slice)


class Audit:
    def __init__(self, where):
        self.where = where
        self.elementwise = 0
        self.column = 0
        self.problems = []

    def bad(self, msg, node):
        self.column += 1
        self.problems.append(f'{self.where}: {msg}: `{_u(node)[:140]}`')

    def expr(self, n):
        """an expression whose value is a column computed element-wise (or a scalar)"""
        if not mentions_df(n):
            return True
        if is_col(n):
            return True
        if isinstance(n, ast.BinOp) and isinstance(n.op, ast.Add):
            ok = self.expr(n.left) and self.expr(n.right)
            if ok:
                self.elementwise += 1
            return ok
        if isinstance(n, ast.Call) and isinstance(n.func, ast.Attribute):
            f = n.func
            args_scalar = all(not mentions_df(a) for a in n.args) and all(not mentions_df(k.value) for k in n.keywords)
            # <expr>.str.<method>(scalars)
            if isinstance(f.value, ast.Attribute) and f.value.attr == 'str' and f.attr in STR_METHODS and args_scalar:
                if self.expr(f.value.value):
                    self.elementwise += 1
                    return True
                return False
            if f.attr == 'astype' and len(n.args) == 1 and isinstance(n.args[0], ast.Name) and n.args[0].id == 'str' and not n.keywords:
                if self.expr(f.value):
                    self.elementwise += 1
                    return True
                return False
            if f.attr in ('apply', 'map') and len(n.args) == 1 and isinstance(n.args[0], ast.Lambda) and not n.keywords:
                lam = n.args[0]
                if len(lam.args.args) == 1 and not mentions_df(lam.body):
                    if self.expr(f.value):
                        self.elementwise += 1
                        return True
                    return False
        self.bad('not an element-wise column expression', n)
        return False

    def stmt(self, st):
        if isinstance(st, ast.Expr) and isinstance(st.value, ast.Constant):
            return
        if isinstance(st, ast.Pass):
            return
        if isinstance(st, ast.Return):
            if st.value is not None and not is_df(st.value) and mentions_df(st.value):
                self.bad('returns something computed from the frame', st)
            return
        if isinstance(st, ast.If):
            if mentions_df(st.test):
                self.bad('data-dependent control flow', st.test)
            for s in st.body + st.orelse:
                self.stmt(s)
            return
        if isinstance(st, ast.For):
            if mentions_df(st.iter):
                self.bad('loop over the data', st.iter)
            for s in st.body + st.orelse:
                self.stmt(s)
            return
        if isinstance(st, ast.Assign) and len(st.targets) == 1:
            t, v = st.targets[0], st.value
            if is_col(t):
                self.expr(v)
                return
            if is_df(t):
                # df = f(df, …) for the known frame-passing functions; df = df.drop(columns=[…])
                if isinstance(v, ast.Call) and isinstance(v.func, ast.Name) and v.func.id in DF_PASSING_CALLS:
                    return
                if isinstance(v, ast.Call) and isinstance(v.func, ast.Attribute) and is_df(v.func.value) and v.func.attr == 'drop' \
                        and not v.args and {k.arg for k in v.keywords} <= {'columns', 'errors'} and not any(mentions_df(k.value) for k in v.keywords):
                    return
                self.bad('the frame is replaced by something not recognised', st)
                return
            if not mentions_df(v) and not mentions_df(t):
                return
            self.bad('a value is computed from the frame', st)
            return
        if mentions_df(st):
            self.bad('unrecognised statement touching the frame', st)


def audit_function(src, rel, name, failures):
    a = Audit(name)
    try:
        fn = src.func(rel, name)
    except KeyError:
        failures.append(f'{name} not found')
        return {'recognised': False, 'elementwise': 0, 'column': 0}
    for st in fn.body:
        a.stmt(st)
    failures.extend(a.problems)
    return {'recognised': not a.problems, 'elementwise': a.elementwise, 'column': a.column}


# ----------------------------------------------------------------------------------------------------
# _preprocess_data: drop_duplicates
# ----------------------------------------------------------------------------------------------------

def dedup_shape(src, failures):
    sh = {'present': False, 'subset': 'allColumns', 'keep': 'first'}
    try:
        fn = src.func('materializer.py', '_preprocess_data')
    except KeyError:
        failures.append('_preprocess_data not found')
        return sh
    body = list(fn.body)
    if body and isinstance(body[0], ast.Expr) and isinstance(body[0].value, ast.Constant):
        body = body[1:]
    dd = []
    for i, st in enumerate(body):
        if isinstance(st, ast.If) and i == 0 and "rml_rule['source_type'] == RDB" in _u(st.test):
            continue
        if isinstance(st, ast.Return):
            if _u(st) != 'return data':
                failures.append('_preprocess_data: unexpected return ' + _u(st))
            continue
        text = _u(st)
        if 'drop_duplicates' in text or 'duplicated' in text:
            dd.append(st)
            continue
        if C06.classify_pre_step(st) is None:
            failures.append('_preprocess_data: unrecognised statement `' + text[:160] + '`')
    if len(dd) != 1:
        failures.append(f'_preprocess_data: {len(dd)} de-duplication statements, expected exactly one')
        return sh
    st = dd[0]
    v = st.value if isinstance(st, ast.Assign) else None
    if not (C06._assign_to(st, 'data') and isinstance(v, ast.Call) and isinstance(v.func, ast.Attribute) and v.func.attr == 'drop_duplicates'
            and C06._is_name(v.func.value, 'data')):
        failures.append('_preprocess_data: de-duplication is not `data = data.drop_duplicates(…)`: `' + _u(st)[:160] + '`')
        sh['subset'] = 'other'
        return sh
    sh['present'] = True
    kws = {k.arg: k.value for k in v.keywords}
    sub = v.args[0] if v.args else kws.get('subset')
    if len(v.args) > 1:
        failures.append('_preprocess_data: positional arguments of drop_duplicates beyond subset')
    if sub is None or (isinstance(sub, ast.Constant) and sub.value is None):
        sh['subset'] = 'allColumns'
    elif _u(sub) in ('references', 'list(references)'):
        sh['subset'] = 'references'
    else:
        sh['subset'] = 'other'
        failures.append('_preprocess_data: drop_duplicates on a subset of the columns: `' + _u(sub)[:100] + '`')
    keep = kws.get('keep')
    if keep is None or (isinstance(keep, ast.Constant) and keep.value == 'first'):
        sh['keep'] = 'first'
    elif isinstance(keep, ast.Constant) and keep.value == 'last':
        sh['keep'] = 'last'
    elif isinstance(keep, ast.Constant) and keep.value is False:
        sh['keep'] = 'dropAll'
        failures.append('_preprocess_data: drop_duplicates(keep=False) removes every copy of a duplicated row')
    else:
        sh['keep'] = 'dropAll'
        failures.append('_preprocess_data: unrecognised keep= of drop_duplicates')
    for k in kws:
        if k not in ('subset', 'keep', 'ignore_index'):
            failures.append(f'_preprocess_data: unexpected drop_duplicates keyword {k}')
    return sh


# ----------------------------------------------------------------------------------------------------
# readers
# ----------------------------------------------------------------------------------------------------

def sql_read_shape(src, failures):
    sh = {'via': False, 'coerceFloatFalse': False, 'typingArgs': False}
    try:
        fn = src.func('data_source/relational_db.py', 'get_sql_data')
    except KeyError:
        failures.append('get_sql_data not found')
        return sh
    last = fn.body[-1]
    v = last.value if isinstance(last, ast.Return) else None
    if not (isinstance(v, ast.Call) and _u(v.func) == 'pd.read_sql_query'):
        failures.append('get_sql_data: does not end with `return pd.read_sql_query(…)`: `' + _u(last)[:140] + '`')
        return sh
    sh['via'] = True
    kws = {k.arg: k.value for k in v.keywords}
    cf = kws.get('coerce_float')
    sh['coerceFloatFalse'] = isinstance(cf, ast.Constant) and cf.value is False
    if not sh['coerceFloatFalse']:
        failures.append('get_sql_data: coerce_float=False is not passed to read_sql_query')
    typing = [k for k in kws if k in ('dtype', 'dtype_backend', 'parse_dates', 'chunksize', 'index_col')]
    sh['typingArgs'] = bool(typing)
    if typing:
        failures.append('get_sql_data: typing arguments passed to read_sql_query: ' + ', '.join(typing))
    for k in kws:
        if k not in ('con', 'coerce_float', 'params') and k not in typing:
            failures.append(f'get_sql_data: unexpected read_sql_query keyword {k}')
    # nothing between the query and the return touches the frame
    for st in fn.body[:-1]:
        if 'read_sql' in _u(st):
            failures.append('get_sql_data: a second read_sql call')
    return sh


def text_read_shape(src, name, callees, failures):
    sh = {'dtypeStr': False, 'keepDefaultNa': True, 'naFilter': True}
    try:
        fn = src.func('data_source/data_file.py', name)
    except KeyError:
        failures.append(f'{name} not found')
        return sh
    calls = [n for n in ast.walk(fn) if isinstance(n, ast.Call) and _u(n.func) in callees]
    if not calls:
        failures.append(f'{name}: no {"/".join(callees)} call')
        return sh
    rets = [st for st in ast.walk(fn) if isinstance(st, ast.Return)]
    if not all(isinstance(r.value, ast.Call) and _u(r.value.func) in callees for r in rets):
        failures.append(f'{name}: the reader frame is post-processed before it is returned')
    vals = []
    for c in calls:
        kws = {k.arg: k.value for k in c.keywords}
        d, kd, nf = kws.get('dtype'), kws.get('keep_default_na'), kws.get('na_filter')
        for bad in ('na_values', 'converters', 'parse_dates', 'dtype_backend', 'true_values', 'false_values', 'thousands', 'decimal'):
            if bad in kws:
                failures.append(f'{name}: {bad}= passed to the reader')
        vals.append((d is not None and isinstance(d, ast.Name) and d.id == 'str',
                     not (isinstance(kd, ast.Constant) and kd.value is False),
                     not (isinstance(nf, ast.Constant) and nf.value is False)))
    sh['dtypeStr'] = all(v[0] for v in vals)
    sh['keepDefaultNa'] = any(v[1] for v in vals)
    sh['naFilter'] = any(v[2] for v in vals)
    if not sh['dtypeStr']:
        failures.append(f'{name}: dtype=str is not passed (columns get inferred dtypes)')
    if sh['naFilter'] or sh['keepDefaultNa']:
        failures.append(f'{name}: NA detection is on (cells become NaN depending on their text)')
    return sh


def columnar_shape(src, name, callee, failures):
    sh = {'passThrough': False, 'dtypeBackendArg': False}
    try:
        fn = src.func('data_source/data_file.py', name)
    except KeyError:
        failures.append(f'{name} not found')
        return sh
    body = [st for st in fn.body if not (isinstance(st, ast.Expr) and isinstance(st.value, ast.Constant))]
    if len(body) == 1 and isinstance(body[0], ast.Return) and isinstance(body[0].value, ast.Call) and _u(body[0].value.func) == callee:
        call = body[0].value
        kws = {k.arg: k.value for k in call.keywords}
        sh['passThrough'] = _u(kws.get('columns')) == 'references' if kws.get('columns') is not None else False
        sh['dtypeBackendArg'] = 'dtype_backend' in kws
        if not sh['passThrough']:
            failures.append(f'{name}: columns=references is not passed')
        if sh['dtypeBackendArg']:
            failures.append(f'{name}: dtype_backend= is passed')
        for k in kws:
            if k not in ('columns', 'engine', 'use_threads', 'dtype_backend'):
                failures.append(f'{name}: unexpected keyword {k}')
    else:
        failures.append(f'{name}: is not a single `return {callee}(…)`')
    return sh


STRIP_EXPR = "x.replace('\"', '') if isinstance(x, str) else x"


def frame_strip_shape(src, failures):
    """the quote-stripping loop of the DataFrame branch of get_ram_data: does the column keep dtype object?"""
    try:
        fn = src.func('data_source/python_data.py', 'get_ram_data')
    except KeyError:
        failures.append('get_ram_data not found')
        return 'unrecognised'
    loops = [n for n in ast.walk(fn) if isinstance(n, ast.For) and 'select_dtypes' in _u(n.iter)]
    if not loops:
        # no quote stripping at all (fix of C10_F1): the referenced columns are handed on as they are, object columns stay object columns
        frame_if = [n for n in ast.walk(fn) if isinstance(n, ast.If) and _u(n.test) == 'isinstance(source_value, pd.DataFrame)']
        if len(frame_if) == 1 and [_u(st) for st in frame_if[0].body if not (isinstance(st, ast.Expr) and isinstance(st.value, ast.Constant))] \
                == ['return source_value[references]']:
            return 'keepsObject'
        failures.append('get_ram_data: DataFrame branch without the object-column loop is not `return source_value[references]`')
        return 'unrecognised'
    if len(loops) != 1 or _u(loops[0].iter) != "source_value.select_dtypes(include=['object']).columns" or len(loops[0].body) != 1:
        failures.append('get_ram_data: unrecognised loop over the object columns of a DataFrame source')
        return 'unrecognised'
    st = loops[0].body[0]
    if not (isinstance(st, ast.Assign) and len(st.targets) == 1 and _u(st.targets[0]) == 'source_value[col]'):
        failures.append('get_ram_data: the object-column loop does not assign source_value[col]')
        return 'unrecognised'
    rhs = _u(st.value)
    if rhs in (f'source_value[col].apply(lambda x: {STRIP_EXPR})', f'source_value[col].map(lambda x: {STRIP_EXPR})'):
        return 'applyInfers'
    if rhs == f'pd.Series([{STRIP_EXPR} for x in source_value[col]], index=source_value.index, dtype=object)':
        return 'keepsObject'
    failures.append('get_ram_data: unrecognised quote stripping of object columns: `' + rhs[:160] + '`')
    return 'unrecognised'


# ----------------------------------------------------------------------------------------------------
# _get_data, _materialize_rml_rule
# ----------------------------------------------------------------------------------------------------

ROW_CHANGING = {'drop_duplicates', 'duplicated', 'groupby', 'head', 'tail', 'sample', 'sort_values', 'sort_index', 'nlargest', 'nsmallest', 'query',
                'dropna', 'filter', 'loc', 'iloc', 'where', 'mask', 'explode', 'merge', 'join', 'unique', 'nunique', 'first', 'last', 'agg', 'aggregate',
                'convert_dtypes', 'infer_objects', 'rank', 'cumsum', 'shift', 'diff', 'ffill', 'bfill', 'fillna', 'interpolate', 'reset_index', 'set_index',
                'value_counts', 'transform', 'pivot', 'melt', 'stack', 'unstack', 'truncate', 'take', 'reindex', 'all', 'any', 'sum', 'min', 'max', 'mean'}


def rule_body_shape(src, failures):
    sh = {'getDataThenPreprocess': False, 'rowPreserving': False, 'tripleIsConcat': False}
    # _get_data
    try:
        fn = src.func('materializer.py', '_get_data')
        body = [st for st in fn.body if not (isinstance(st, ast.Expr) and isinstance(st.value, ast.Constant))]
        ok = len(body) == 3 and isinstance(body[0], ast.If) \
            and _u(body[1]) == 'data = _preprocess_data(data, rml_rule, references, config)' and _u(body[2]) == 'return data'
        if ok:
            cur = body[0]
            while True:
                if not (len(cur.body) == 1 and C06._assign_to(cur.body[0], 'data') and isinstance(cur.body[0].value, ast.Call)
                        and isinstance(cur.body[0].value.func, ast.Name) and cur.body[0].value.func.id.startswith('get_')
                        and cur.body[0].value.func.id.endswith('_data')):
                    ok = False
                    break
                if len(cur.orelse) == 1 and isinstance(cur.orelse[0], ast.If):
                    cur = cur.orelse[0]
                elif not cur.orelse:
                    break
                else:
                    ok = False
                    break
        sh['getDataThenPreprocess'] = ok
        if not ok:
            failures.append('_get_data: is not `data = get_<kind>_data(…)` per source type followed by `data = _preprocess_data(data, rml_rule, references, config)`')
    except KeyError:
        failures.append('_get_data not found')
    # _materialize_rml_rule
    try:
        fn = src.func('materializer.py', '_materialize_rml_rule')
    except KeyError:
        failures.append('_materialize_rml_rule not found')
        return sh
    probs = []
    for n in ast.walk(fn):
        if isinstance(n, ast.Call):
            f = n.func
            if isinstance(f, ast.Attribute) and mentions_df(f.value):
                if f.attr == 'drop' and not n.args and {k.arg for k in n.keywords} <= {'columns', 'errors'}:
                    continue
                probs.append(f'method `{f.attr}` on the data: `{_u(n)[:120]}`')
            elif isinstance(f, ast.Name) and any(mentions_df(a) for a in list(n.args) + [k.value for k in n.keywords]):
                if f.id not in DF_PASSING_CALLS:
                    probs.append(f'the data is passed to `{f.id}`')
            elif isinstance(f, ast.Attribute) and any(mentions_df(a) for a in list(n.args) + [k.value for k in n.keywords]):
                probs.append(f'the data is passed to `{_u(f)}`')
        if isinstance(n, ast.Subscript) and is_df(n.value) and mentions_df(n.slice):
            probs.append(f'indexing the data by the data: `{_u(n)[:120]}`')
        if isinstance(n, ast.Attribute) and is_df(n.value) and n.attr in ROW_CHANGING:
            probs.append(f'`{_u(n)}`')
    a = Audit('_materialize_rml_rule')
    for st in ast.walk(fn):
        if isinstance(st, ast.Assign) and len(st.targets) == 1 and is_col(st.targets[0]):
            a.expr(st.value)
        if isinstance(st, (ast.If, ast.While)) and mentions_df(st.test):
            # `data is None` / `data is not None` ask whether a frame was handed in, not what its rows hold: they may be combined
            # with tests that do not mention the data
            class _DropIsNone(ast.NodeTransformer):
                def visit_Compare(self, c):
                    if len(c.ops) == 1 and isinstance(c.ops[0], (ast.Is, ast.IsNot)) and is_df(c.left) \
                            and isinstance(c.comparators[0], ast.Constant) and c.comparators[0].value is None:
                        return ast.Constant(value=True)
                    return c
            import copy
            rest = _DropIsNone().visit(copy.deepcopy(st.test))
            if mentions_df(rest):
                probs.append(f'data-dependent control flow: `{_u(st.test)[:120]}`')
    probs += a.problems
    sh['rowPreserving'] = not probs
    failures.extend('_materialize_rml_rule: ' + p for p in probs)
    texts = [_u(st) for st in ast.walk(fn) if isinstance(st, ast.Assign)]
    sh['tripleIsConcat'] = "data['triple'] = data['subject'] + ' ' + data['predicate'] + ' ' + data['object']" in texts
    if not sh['tripleIsConcat']:
        failures.append("_materialize_rml_rule: the statement column is not `data['subject'] + ' ' + data['predicate'] + ' ' + data['object']`")
    return sh


# ----------------------------------------------------------------------------------------------------

def _b(x):
    return 'true' if x else 'false'


def generate(src, env, out, summary):
    failures = []
    dd = dedup_shape(src, failures)
    sq = sql_read_shape(src, failures)
    cs = text_read_shape(src, '_read_csv', ('pd.read_table', 'pd.read_csv'), failures)
    xs = text_read_shape(src, '_read_excel', ('pd.read_excel',), failures)
    od = text_read_shape(src, '_read_ods', ('pd.read_excel',), failures)
    pq = columnar_shape(src, '_read_parquet', 'pd.read_parquet', failures)
    fe = columnar_shape(src, '_read_feather', 'pd.read_feather', failures)
    oc = columnar_shape(src, '_read_orc', 'pd.read_orc', failures)
    at = audit_function(src, 'materializer.py', '_materialize_template', failures)
    af = audit_function(src, 'materializer.py', '_materialize_fnml_execution', failures)
    ar = audit_function(src, 'materializer.py', '_materialize_rml_rule_terms', failures)
    rb = rule_body_shape(src, failures)
    fs = frame_strip_shape(src, failures)

    def text(t):
        return f'{{ dtypeStr := {_b(t["dtypeStr"])}, keepDefaultNa := {_b(t["keepDefaultNa"])}, naFilter := {_b(t["naFilter"])} }}'

    def col(c):
        return f'{{ passThrough := {_b(c["passThrough"])}, dtypeBackendArg := {_b(c["dtypeBackendArg"])} }}'

    def aud(a):
        return f'{{ recognised := {_b(a["recognised"])}, elementwiseOps := {a["elementwise"]}, columnOps := {a["column"]} }}'

    lines = [HEADER, 'import MorphKgc.Model.RowTypes', '', 'namespace Gen', 'open Py Model', '',
             '/-- the `data = data.drop_duplicates(…)` of `materializer._preprocess_data` -/',
             f'def dedupShape : DedupShape := {{ present := {_b(dd["present"])}, subset := .{dd["subset"]}, keep := .{dd["keep"]} }}', '',
             '/-- `relational_db.get_sql_data` -/',
             f'def sqlReadShape : SqlReadShape := {{ viaReadSqlQuery := {_b(sq["via"])}, coerceFloatFalse := {_b(sq["coerceFloatFalse"])}, typingArgs := {_b(sq["typingArgs"])} }}', '',
             '/-- `data_file._read_csv` (both calls), `_read_excel`, `_read_ods` -/',
             'def csvReadShape : TextReadShape := ' + text(cs),
             'def excelReadShape : TextReadShape := ' + text(xs),
             'def odsReadShape : TextReadShape := ' + text(od), '',
             '/-- `data_file._read_parquet`, `_read_feather`, `_read_orc` -/',
             'def parquetShape : ColumnarReadShape := ' + col(pq),
             'def featherShape : ColumnarReadShape := ' + col(fe),
             'def orcShape : ColumnarReadShape := ' + col(oc), '',
             '/-- element-wise audit of the term-construction functions of `materializer.py` -/',
             'def auditTemplate : ElementwiseAudit := ' + aud(at),
             'def auditFnml : ElementwiseAudit := ' + aud(af),
             'def auditRuleTerms : ElementwiseAudit := ' + aud(ar), '',
             '/-- `_get_data` and the body of `_materialize_rml_rule` -/',
             f'def ruleBodyShape : RuleBodyShape := {{ getDataThenPreprocess := {_b(rb["getDataThenPreprocess"])}, rowPreserving := {_b(rb["rowPreserving"])}, '
             f'tripleIsConcat := {_b(rb["tripleIsConcat"])} }}', '',
             '/-- the quote stripping of object columns in the DataFrame branch of `python_data.get_ram_data` -/',
             f'def frameStripDtype : FrameStrip := .{fs}', '',
             f'def rowIndepTranslated : Bool := {_b(not failures)}', '',
             'end Gen', '']
    write_if_changed(os.path.join(out, 'RowIndep.lean'), '\n'.join(lines))
    summary['rowindep'] = {'dedup': dd, 'sql_read': sq, 'csv': cs, 'excel': xs, 'ods': od, 'parquet': pq, 'feather': fe, 'orc': oc,
                           'audit_template': at, 'audit_fnml': af, 'audit_rule_terms': ar, 'rule_body': rb, 'frame_strip': fs, 'failures': failures}
