"""C16: process-state facts of morph-kgc (what survives a library call) -> Gen/Proc.lean

Everything is read from the AST of the working tree:
  (a) load_udfs / execute_fnml: a NEW ModuleType per load, registered in sys.modules['udfs'] BEFORE exec, the returned
      dict is the new module's `udf_dict`; only called when the function id is not in bif_dict
  (b) get_ram_data: per isinstance branch, whether the caller's object is mutated / returned as an alias
  (c) materialize_set: config rebuilt from the argument on every call, parser fresh, locals only
  (d) process-global state: `global` statements, module-level / class-level mutable containers mutated by functions,
      process-global API effects (sys.modules, os.environ, logging, pandas options, ...), mutable default arguments
  (e) configure_logger: logging.basicConfig without force=True (first call wins); logging is write-only in the package
  (f) file-writing calls reachable from materialize_set
Unrecognised shapes are failures in summary['proc'].
"""
import ast
import os

from extract import HEADER, write_if_changed

# ----------------------------------------------------------------------------------------------------
# allow-list: every piece of process-global state / file effect the translator may find, with the argument
# why it cannot change the RESULT of a later call (or how the Lean model accounts for it). An entry that is
# not listed here ends up in Gen.procUnlisted, breaks theorem C16_state_listed and makes the check escalate.
# ----------------------------------------------------------------------------------------------------
ALLOW_STATE = {
    # modelled: Proc.udfModule. Overwritten with a new module before every use (theorem C16_result_indep).
    "state fnml/fnml_executer.py:load_udfs:sys.modules['udfs']":
        'modelled as Proc.udfModule (overwritten before use)',
    # bif_dict is filled by the @bif decorators while built_in_functions is imported (once per process, before the
    # first call, same content for every call); no function reachable from materialize_set calls bif()/wrapper.
    'state fnml/built_in_functions.py:bif.wrapper:bif_dict':
        'import-time registration of the built-in functions only',
    # modelled: Proc.logger, first call wins; the package never reads the logging configuration (loggingWriteOnly).
    'state utils.py:configure_logger:logging.basicConfig':
        'modelled as Proc.logger (first call wins, never read)',
    "state utils.py:configure_logger:logging.getLogger('jsonpath').setLevel":
        'idempotent: the same constant level on every call; log output is not part of the result',
    # mutable default that is only read: `references.update(parent_join_references)` copies FROM it.
    'default materializer.py:_materialize_rml_rule:parent_join_references':
        'never mutated (checked: procMutatedDefaults = [])',
    # file effects of a library call: directories for the configured outputs and the logging file itself.
    'write utils.py:create_dirs_in_path:os.makedirs':
        'creates the parent directories of configured OUTPUT paths (logging_file, parsed-mappings path)',
    'write utils.py:configure_logger:logging.basicConfig(filename)':
        'the configured logging_file (modelled: Args.logging.file, the only path a call writes)',
}

MUTATORS = {'pop', 'popitem', 'clear', 'update', 'setdefault', 'append', 'extend', 'insert', 'remove', 'sort', 'reverse',
            'add', 'discard', '__setitem__', '__delitem__', 'difference_update', 'intersection_update',
            'symmetric_difference_update', 'appendleft', 'extendleft'}
GLOBAL_API_ATTRS = {'chdir', 'putenv', 'unsetenv', 'set_option', 'reset_option', 'basicConfig', 'disable', 'setLevel',
                    'filterwarnings', 'simplefilter', 'seed', 'set_start_method', 'setlocale', 'field_size_limit',
                    'setrecursionlimit', 'addHandler', 'removeHandler', 'register', 'captureWarnings', 'dictConfig',
                    'fileConfig', 'setLoggerClass', 'install'}
GLOBAL_ROOTS = {'os.environ', 'sys.path', 'sys.modules', 'sys.argv', 'pd.options', 'pandas.options', 'sys.meta_path',
                'sys.path_hooks', 'builtins'}
LOGGING_WRITE_ONLY = {'info', 'debug', 'warning', 'error', 'critical', 'exception', 'log', 'basicConfig', 'getLogger',
                      'CRITICAL', 'ERROR', 'WARNING', 'INFO', 'DEBUG', 'NOTSET', 'setLevel'}
OS_WRITE = {'remove', 'unlink', 'rename', 'replace', 'makedirs', 'mkdir', 'rmdir', 'removedirs', 'truncate', 'rmtree',
            'copy', 'copyfile', 'copy2', 'move', 'symlink', 'link', 'chmod', 'utime'}
TO_WRITE = {'to_csv', 'to_pickle', 'to_parquet', 'to_json', 'to_excel', 'to_feather', 'to_sql', 'to_hdf', 'to_stata',
            'to_orc', 'to_xml', 'to_html', 'to_latex', 'to_markdown', 'serialize', 'dump', 'write_text', 'write_bytes', 'touch'}


def unparse(n):
    return ' '.join(ast.unparse(n).split())


def root_name(node):
    """name at the root of an attribute/subscript/call chain"""
    while True:
        if isinstance(node, (ast.Attribute, ast.Subscript, ast.Starred)):
            node = node.value
        elif isinstance(node, ast.Call):
            node = node.func
        else:
            break
    return node.id if isinstance(node, ast.Name) else None


def is_mutable_value(v):
    if isinstance(v, (ast.Dict, ast.List, ast.Set, ast.ListComp, ast.DictComp, ast.SetComp)):
        return True
    if isinstance(v, ast.Call):
        f = unparse(v.func)
        return f in ('dict', 'list', 'set', 'defaultdict', 'OrderedDict', 'collections.defaultdict', 'collections.OrderedDict',
                     'Counter', 'collections.Counter', 'deque', 'collections.deque', 'pd.DataFrame', 'pd.Series', 'bytearray')
    return False


def walk_functions(tree):
    """(qualified name, node) of every function/method, nested ones included"""
    out = []

    def rec(body, prefix):
        for n in body:
            if isinstance(n, (ast.FunctionDef, ast.AsyncFunctionDef)):
                q = prefix + n.name
                out.append((q, n))
                rec(n.body, q + '.')
            elif isinstance(n, ast.ClassDef):
                rec(n.body, prefix + n.name + '.')
            else:
                for fld in ('body', 'orelse', 'finalbody', 'handlers'):
                    sub = getattr(n, fld, None)
                    if isinstance(sub, list):
                        rec([s for s in sub if isinstance(s, ast.AST)], prefix)
    rec(tree.body, '')
    return out


def own_nodes(fn):
    """nodes of a function body without the bodies of nested function definitions"""
    stack = list(fn.body)
    while stack:
        n = stack.pop()
        if isinstance(n, (ast.FunctionDef, ast.AsyncFunctionDef)):
            continue
        yield n
        for c in ast.iter_child_nodes(n):
            stack.append(c)


def local_names(fn):
    """parameters and names bound by plain assignment inside `fn` (these shadow module globals)"""
    names = {a.arg for a in fn.args.posonlyargs + fn.args.args + fn.args.kwonlyargs}
    if fn.args.vararg:
        names.add(fn.args.vararg.arg)
    if fn.args.kwarg:
        names.add(fn.args.kwarg.arg)
    globs = set()
    for n in own_nodes(fn):
        if isinstance(n, (ast.Global, ast.Nonlocal)):
            globs.update(n.names)
    for n in own_nodes(fn):
        if isinstance(n, ast.Name) and isinstance(n.ctx, ast.Store) and n.id not in globs:
            names.add(n.id)
    return names, globs


# ----------------------------------------------------------------------------------------------------
# alias / mutation analysis of one function body (flow-sensitive on straight-line code, branch-union)
# ----------------------------------------------------------------------------------------------------

FRESH_CALLS = {'copy', 'deepcopy', 'copy.deepcopy', 'copy.copy'}


def expr_is_alias(e, aliases):
    return isinstance(e, ast.Name) and e.id in aliases


def mutations(stmts, aliases, local_funcs=None, depth=0, notes=None):
    """descriptions of statements that mutate an object reachable from a name in `aliases` (set is updated in place)"""
    found = []
    local_funcs = local_funcs or {}
    notes = notes if notes is not None else []

    def check_expr(e):
        for n in ast.walk(e):
            if isinstance(n, ast.Call):
                f = n.func
                if isinstance(f, ast.Attribute) and root_name(f.value) in aliases:
                    if f.attr in MUTATORS:
                        found.append(unparse(n))
                    elif any(k.arg == 'inplace' and not (isinstance(k.value, ast.Constant) and k.value.value is False)
                             for k in n.keywords):
                        found.append(unparse(n))
                # alias handed to a function of the package: look inside (one level is enough here)
                fname = f.id if isinstance(f, ast.Name) else None
                if fname in local_funcs and depth < 3:
                    callee = local_funcs[fname]
                    params = [a.arg for a in callee.args.args]
                    sub_alias = set()
                    for i, a in enumerate(n.args):
                        if expr_is_alias(a, aliases) and i < len(params):
                            sub_alias.add(params[i])
                    for k in n.keywords:
                        if expr_is_alias(k.value, aliases) and k.arg:
                            sub_alias.add(k.arg)
                    if sub_alias:
                        sub = mutations(callee.body, sub_alias, local_funcs, depth + 1, notes)
                        found.extend(f'{fname}: {s}' for s in sub)
                elif fname is not None and fname not in PURE_CALLS and any(expr_is_alias(a, aliases) for a in n.args):
                    notes.append(f'caller object passed to unknown function {fname}')

    def targets_of(st):
        if isinstance(st, ast.Assign):
            return st.targets
        if isinstance(st, (ast.AugAssign, ast.AnnAssign)):
            return [st.target]
        if isinstance(st, ast.Delete):
            return st.targets
        return []

    def rec(body, al):
        for st in body:
            for t in targets_of(st):
                for tt in (t.elts if isinstance(t, (ast.Tuple, ast.List)) else [t]):
                    if isinstance(tt, (ast.Subscript, ast.Attribute)) and root_name(tt) in al:
                        found.append(unparse(st).split('\n')[0][:160])
            if isinstance(st, (ast.Assign, ast.AnnAssign)) and getattr(st, 'value', None) is not None:
                check_expr(st.value)
                tgt = st.targets[0] if isinstance(st, ast.Assign) else st.target
                if isinstance(tgt, ast.Name):
                    v = st.value
                    if expr_is_alias(v, al):
                        al.add(tgt.id)
                    elif isinstance(v, ast.Subscript) and root_name(v) in al and not isinstance(v.slice, (ast.List, ast.Name)):
                        al.add(tgt.id)          # obj[key] of a container: the element is still the caller's
                    else:
                        al.discard(tgt.id)      # rebound to a fresh value (copy(), a new frame, a parsed string ...)
            elif isinstance(st, ast.AugAssign):
                check_expr(st.value)
                if isinstance(st.target, ast.Name) and st.target.id in al:
                    found.append(unparse(st)[:160])      # `x += ...` mutates lists / frames in place
            elif isinstance(st, ast.Expr):
                check_expr(st.value)
            elif isinstance(st, (ast.Return, ast.Raise)):
                if getattr(st, 'value', None) is not None:
                    check_expr(st.value)
                elif getattr(st, 'exc', None) is not None:
                    check_expr(st.exc)
            elif isinstance(st, (ast.For, ast.While)):
                check_expr(st.iter if isinstance(st, ast.For) else st.test)
                a1 = set(al)
                rec(st.body, a1)
                rec(st.body, a1)      # second pass: aliases created late in the loop body
                a2 = set(al)
                rec(st.orelse, a2)
                al |= a1 | a2
            elif isinstance(st, ast.If):
                check_expr(st.test)
                a1, a2 = set(al), set(al)
                rec(st.body, a1)
                rec(st.orelse, a2)
                al.clear()
                al |= a1 | a2
            elif isinstance(st, (ast.With, ast.Try)):
                for it in getattr(st, 'items', []):
                    check_expr(it.context_expr)
                rec(st.body, al)
                for h in getattr(st, 'handlers', []):
                    rec(h.body, al)
                rec(getattr(st, 'orelse', []), al)
                rec(getattr(st, 'finalbody', []), al)
    rec(stmts, aliases)
    # de-duplicate, keep order
    seen, out = set(), []
    for f in found:
        if f not in seen:
            seen.add(f)
            out.append(f)
    return out


PURE_CALLS = {'isinstance', 'list', 'tuple', 'dict', 'set', 'len', 'str', 'repr', 'type', 'sorted', 'enumerate', 'zip', 'print',
              'iter', 'any', 'all', 'id', 'bool', 'int', 'float', 'range', 'min', 'max', 'sum', 'frozenset', 'ValueError',
              'JSONPath', 'Exception', 'TypeError', 'KeyError'}

STRIP_LOOP = ("for col in source_value.select_dtypes(include=['object']).columns: source_value[col] = source_value[col].apply("
              "lambda x: x.replace('\"', '') if isinstance(x, str) else x)")


# ----------------------------------------------------------------------------------------------------
# sections
# ----------------------------------------------------------------------------------------------------

def scan_load_udfs(src, failures):
    rel = 'fnml/fnml_executer.py'
    kind, only_if_not_bif = None, False
    try:
        fn = src.func(rel, 'load_udfs')
    except KeyError:
        failures.append('load_udfs not found')
        return 'freshPerUse', False
    body = [s for s in fn.body if not (isinstance(s, ast.Expr) and isinstance(s.value, ast.Constant))]
    if not (len(body) == 1 and isinstance(body[0], ast.If) and unparse(body[0].test) == 'config.get_udfs()'):
        failures.append('load_udfs: body is not `if config.get_udfs(): ... else: return {}`: ' + unparse(fn)[:200])
        return 'freshPerUse', False
    iff = body[0]
    if [unparse(s) for s in iff.orelse] != ['return {}']:
        failures.append('load_udfs: else branch is not `return {}`')
    idx = {}
    early = []
    for i, st in enumerate(iff.body):
        u = unparse(st)
        if isinstance(st, ast.Assign) and isinstance(st.value, ast.Call) and unparse(st.value.func) in ('ModuleType', 'types.ModuleType') \
                and isinstance(st.targets[0], ast.Name):
            idx['new'] = i
            idx['var'] = st.targets[0].id
        elif isinstance(st, ast.Assign) and unparse(st.targets[0]) == "sys.modules['udfs']":
            idx['reg'] = i
            idx['regval'] = unparse(st.value)
        elif isinstance(st, ast.Expr) and isinstance(st.value, ast.Call) and unparse(st.value.func) == 'exec':
            idx['exec'] = i
            idx['execns'] = unparse(st.value.args[1]) if len(st.value.args) > 1 else None
        elif isinstance(st, ast.Return):
            idx['ret'] = i
            idx['retval'] = unparse(st.value) if st.value else None
        elif isinstance(st, ast.With) and 'open(config.get_udfs()' in u:
            idx['read'] = i
        elif isinstance(st, (ast.Import, ast.ImportFrom)):
            pass
        elif isinstance(st, ast.Assign) and isinstance(st.targets[0], ast.Name) and st.targets[0].id == 'udfs_code':
            pass
        elif isinstance(st, ast.If) and any(isinstance(x, ast.Return) for x in ast.walk(st)):
            early.append((i, u))
        else:
            failures.append('load_udfs: unrecognised statement: ' + u[:160])
    need = ['new', 'reg', 'exec', 'ret', 'read']
    if any(k not in idx for k in need):
        failures.append('load_udfs: missing step(s) ' + ','.join(k for k in need if k not in idx))
        return 'freshPerUse', False
    v = idx['var']
    ok_order = idx['read'] < idx['exec'] and idx['new'] < idx['reg'] < idx['exec'] < idx['ret']
    ok_vals = idx['regval'] == v and idx['execns'] == f'{v}.__dict__' and idx['retval'] == f'{v}.udf_dict'
    if not ok_order:
        failures.append('load_udfs: order is not new module -> sys.modules[\'udfs\'] -> exec -> return')
    if not ok_vals:
        failures.append(f"load_udfs: registers {idx['regval']}, execs into {idx['execns']}, returns {idx['retval']} (expected the new module)")
    if early:
        e_ok = all(i < idx['new'] and "'udfs' in sys.modules" in u for i, u in early)
        if e_ok:
            kind = 'reuseIfLoaded'       # recognised shape of a cache: the model then reuses Proc.udfModule
        else:
            failures.append('load_udfs: early return of unrecognised shape: ' + early[0][1][:160])
    elif ok_order and ok_vals:
        kind = 'freshPerUse'

    # call sites: only execute_fnml, only in the else-branch of `if function_id in bif_dict`
    sites = []
    for rel2 in src_files(src):
        for q, f in walk_functions(src.tree(rel2)):
            for n in own_nodes(f):
                if isinstance(n, ast.Call) and unparse(n.func).split('.')[-1] == 'load_udfs':
                    sites.append(f'{rel2}:{q}')
    try:
        ex = src.func(rel, 'execute_fnml')
        for st in ex.body:
            if isinstance(st, ast.If) and unparse(st.test) == 'function_id in bif_dict':
                in_else = any(isinstance(n, ast.Call) and unparse(n.func) == 'load_udfs' for s in st.orelse for n in ast.walk(s))
                in_then = any(isinstance(n, ast.Call) and unparse(n.func) == 'load_udfs' for s in st.body for n in ast.walk(s))
                only_if_not_bif = in_else and not in_then
    except KeyError:
        failures.append('execute_fnml not found')
    if sites != [f'{rel}:execute_fnml']:
        failures.append(f'load_udfs is called from {sites}, expected only execute_fnml')
        only_if_not_bif = False
    if not only_if_not_bif:
        failures.append('execute_fnml: load_udfs is not confined to the branch `function_id not in bif_dict`')
    return kind or 'freshPerUse', only_if_not_bif


def src_files(src):
    out = []
    for root, _, files in os.walk(src.pkg):
        for fn in sorted(files):
            if fn.endswith('.py'):
                out.append(os.path.relpath(os.path.join(root, fn), src.pkg))
    return sorted(out)


def scan_get_ram_data(src, failures):
    rel = 'data_source/python_data.py'
    res = {'frameMutates': False, 'frameReturnsCopy': False, 'othersReadOnly': False, 'branches': {}}
    try:
        fn = src.func(rel, 'get_ram_data')
    except KeyError:
        failures.append('get_ram_data not found')
        return res
    local_funcs = {n.name: n for n in src.tree(rel).body if isinstance(n, ast.FunctionDef)}
    pre = [s for s in fn.body if not isinstance(s, ast.If)]
    ifs = [s for s in fn.body if isinstance(s, ast.If)]
    pre_u = [unparse(s) for s in pre]
    if 'source_value = python_source[source_key]' not in pre_u or 'references = list(references)' not in pre_u:
        failures.append('get_ram_data: preamble changed: ' + '; '.join(pre_u)[:200])
    notes = []
    m = mutations(pre, {'python_source', 'source_value'}, local_funcs, notes=notes)
    if m:
        failures.append('get_ram_data: the python_source dict / source object is mutated before the type dispatch: ' + m[0])
    if len(ifs) != 1:
        failures.append('get_ram_data: expected one isinstance chain')
        return res
    LABEL = {'isinstance(source_value, pd.DataFrame)': 'frame', 'isinstance(source_value, list)': 'list',
             'isinstance(source_value, tuple)': 'tuple', 'isinstance(source_value, dict)': 'dict',
             '_check_if_json(source_value)': 'json'}
    node = ifs[0]
    others_ok = True
    seen = set()
    while True:
        lab = LABEL.get(unparse(node.test))
        if lab is None:
            failures.append('get_ram_data: unrecognised dispatch test ' + unparse(node.test)[:120])
            others_ok = False
        else:
            seen.add(lab)
            al = {'python_source', 'source_value'}
            muts = mutations(node.body, al, local_funcs, notes=notes)
            rets = [s for s in ast.walk(ast.Module(body=node.body, type_ignores=[])) if isinstance(s, ast.Return)]
            ret_u = [unparse(r.value) if r.value is not None else 'None' for r in rets]
            ret_alias = any(isinstance(r.value, ast.Name) and r.value.id in al for r in rets)
            res['branches'][lab] = {'mutations': muts, 'returns': ret_u, 'returns_alias': ret_alias}
            if lab == 'frame':
                if muts:
                    body_u = ' '.join(unparse(s) for s in node.body if not isinstance(s, ast.Return))
                    if ' '.join(body_u.split()) == STRIP_LOOP:
                        res['frameMutates'] = True
                    else:
                        res['frameMutates'] = True
                        failures.append('get_ram_data: the caller\'s DataFrame is mutated in an unrecognised way: ' + muts[0])
                if ret_alias:
                    failures.append('get_ram_data: returns the caller\'s DataFrame itself (later in-place operations would reach it)')
                elif all(u in ('source_value[references]',) for u in ret_u) and ret_u:
                    res['frameReturnsCopy'] = True       # frame[list] builds a new frame (pandas semantics, trusted)
                else:
                    failures.append('get_ram_data: unrecognised return for DataFrame sources: ' + '; '.join(ret_u)[:160])
            else:
                if muts:
                    others_ok = False
                    failures.append(f'get_ram_data: the caller\'s {lab} object is mutated: ' + muts[0])
                if ret_alias:
                    others_ok = False
                    failures.append(f'get_ram_data: returns the caller\'s {lab} object itself')
        if len(node.orelse) == 1 and isinstance(node.orelse[0], ast.If):
            node = node.orelse[0]
        else:
            if not (len(node.orelse) == 1 and isinstance(node.orelse[0], ast.Raise)):
                failures.append('get_ram_data: final else is not a raise')
            break
    if seen != set(LABEL.values()):
        failures.append(f'get_ram_data: dispatch branches {sorted(seen)}')
    for n in notes:
        failures.append('get_ram_data: ' + n)
        others_ok = False
    res['othersReadOnly'] = others_ok
    return res


def scan_materialize_set(src, failures):
    ok = True
    try:
        ms = src.func('__init__.py', 'materialize_set')
        body = [s for s in ms.body if not (isinstance(s, ast.Expr) and isinstance(s.value, ast.Constant))]
        if unparse(body[0]) != 'config = load_config_from_argument(config)':
            failures.append('materialize_set: first statement is not `config = load_config_from_argument(config)`')
            ok = False
        for n in own_nodes(ms):
            if isinstance(n, (ast.Global, ast.Nonlocal)):
                failures.append('materialize_set: global/nonlocal statement')
                ok = False
            if isinstance(n, (ast.Assign, ast.AugAssign)):
                for t in (n.targets if isinstance(n, ast.Assign) else [n.target]):
                    for tt in (t.elts if isinstance(t, ast.Tuple) else [t]):
                        if not isinstance(tt, ast.Name):
                            failures.append('materialize_set: assignment to a non-local target ' + unparse(tt))
                            ok = False
        lc = src.func('args_parser.py', 'load_config_from_argument')
        lb = [s for s in lc.body if not (isinstance(s, ast.Expr) and isinstance(s.value, ast.Constant))]
        if not (isinstance(lb[0], ast.Assign) and unparse(lb[0].targets[0]) == 'config' and unparse(lb[0].value).startswith('Config(')):
            failures.append('load_config_from_argument: does not start with a fresh Config(...)')
            ok = False
        if not any(unparse(s) in ('config.read(config_entry)', 'config.read_string(config_entry)') for s in ast.walk(lc) if isinstance(s, ast.Expr)):
            failures.append('load_config_from_argument: the argument is not read into the fresh Config')
            ok = False
        if unparse(lb[-1]) != 'return config':
            failures.append('load_config_from_argument: does not return the fresh Config')
            ok = False
        rm = src.func('mapping/mapping_parser.py', 'retrieve_mappings')
        if not any(isinstance(s, ast.Assign) and unparse(s.value) == 'MappingParser(config)' for s in rm.body):
            failures.append('retrieve_mappings: no fresh MappingParser(config)')
            ok = False
        init = src.func('mapping/mapping_parser.py', '__init__', cls='MappingParser')
        iu = [unparse(s) for s in init.body]
        if not all(u.startswith('self.') for u in iu):
            failures.append('MappingParser.__init__: unexpected statements')
            ok = False
    except (KeyError, IndexError) as e:
        failures.append(f'materialize_set scan: {e!r}')
        ok = False
    return ok


def scan_global_state(src, failures):
    """module/class-level mutable containers mutated by functions, global statements, process-global API effects"""
    files = src_files(src)
    mod_mut = {}            # rel -> names of module-level mutable containers
    for rel in files:
        names = set()
        for n in src.tree(rel).body:
            if isinstance(n, ast.Assign) and is_mutable_value(n.value):
                names.update(t.id for t in n.targets if isinstance(t, ast.Name))
            elif isinstance(n, ast.AnnAssign) and n.value is not None and is_mutable_value(n.value) and isinstance(n.target, ast.Name):
                names.add(n.target.id)
        mod_mut[rel] = names
    all_mut = set().union(*mod_mut.values()) if mod_mut else set()
    state, classes = [], []
    for rel in files:
        tree = src.tree(rel)
        imported = set()
        modnames = set()
        for n in ast.walk(tree):
            if isinstance(n, ast.ImportFrom):
                for a in n.names:
                    if a.name == '*':
                        imported |= all_mut          # `from .constants import *`
                    elif a.name in all_mut:
                        imported.add(a.asname or a.name)
            elif isinstance(n, ast.Import):
                for a in n.names:
                    modnames.add((a.asname or a.name).split('.')[0])
        watch = mod_mut[rel] | imported
        for n in ast.walk(tree):
            if isinstance(n, ast.ClassDef):
                for s in n.body:
                    if isinstance(s, ast.Assign) and is_mutable_value(s.value):
                        for t in s.targets:
                            classes.append(f'state {rel}:{n.name}.{unparse(t)} (class-level container)')
        funcs = walk_functions(tree) + [('<module>', ast.FunctionDef(name='<module>', args=ast.arguments(posonlyargs=[], args=[], kwonlyargs=[], kw_defaults=[], defaults=[]),
                                                                     body=[s for s in tree.body if not isinstance(s, (ast.FunctionDef, ast.ClassDef, ast.AsyncFunctionDef))],
                                                                     decorator_list=[]))]
        for q, fn in funcs:
            if q == '<module>':
                locs, globs = set(), set()
            else:
                locs, globs = local_names(fn)
            for g in sorted(globs):
                state.append(f'state {rel}:{q}:global {g}')
            vis = (watch - locs) | globs
            for n in own_nodes(fn):
                tg = []
                if isinstance(n, ast.Assign):
                    tg = n.targets
                elif isinstance(n, (ast.AugAssign, ast.AnnAssign)):
                    tg = [n.target]
                elif isinstance(n, ast.Delete):
                    tg = n.targets
                for t in tg:
                    for tt in (t.elts if isinstance(t, (ast.Tuple, ast.List)) else [t]):
                        if isinstance(tt, (ast.Subscript, ast.Attribute)):
                            r = root_name(tt)
                            if r in vis and q != '<module>':
                                state.append(f'state {rel}:{q}:{r}')
                            elif r in modnames and r not in locs:
                                base = unparse(tt)
                                state.append(f'state {rel}:{q}:{base}')
                if isinstance(n, ast.Call) and isinstance(n.func, ast.Attribute):
                    r = root_name(n.func.value)
                    fu = unparse(n.func)
                    if r in vis and n.func.attr in MUTATORS and q != '<module>':
                        state.append(f'state {rel}:{q}:{r}')
                    elif r in modnames and r not in locs and (n.func.attr in GLOBAL_API_ATTRS or
                                                              any(fu.startswith(g + '.') or fu.startswith(g + '[') for g in GLOBAL_ROOTS)
                                                              and n.func.attr in MUTATORS):
                        state.append(f'state {rel}:{q}:{fu}')
    out, seen = [], set()
    for s in state + classes:
        if s not in seen:
            seen.add(s)
            out.append(s)
    return out


def scan_defaults(src):
    defaults, mutated = [], []
    for rel in src_files(src):
        for q, fn in walk_functions(src.tree(rel)):
            a = fn.args
            pos = a.posonlyargs + a.args
            pairs = list(zip(pos[len(pos) - len(a.defaults):], a.defaults)) + [(k, d) for k, d in zip(a.kwonlyargs, a.kw_defaults) if d is not None]
            for arg, d in pairs:
                if is_mutable_value(d):
                    e = f'default {rel}:{q}:{arg.arg}'
                    defaults.append(e)
                    if mutations(fn.body, {arg.arg}):
                        mutated.append(e)
    return defaults, mutated


def scan_logging(src, failures):
    first_wins, write_only = True, True
    try:
        cl = src.func('utils.py', 'configure_logger')
        calls = [n for n in ast.walk(cl) if isinstance(n, ast.Call) and unparse(n.func) == 'logging.basicConfig']
        if not calls:
            failures.append('configure_logger: no logging.basicConfig call')
        for c in calls:
            for k in c.keywords:
                if k.arg == 'force' and not (isinstance(k.value, ast.Constant) and k.value.value is False):
                    first_wins = False
                if k.arg is None:
                    failures.append('configure_logger: **kwargs in basicConfig')
    except KeyError:
        failures.append('configure_logger not found')
    used = set()
    for rel in src_files(src):
        for n in ast.walk(src.tree(rel)):
            if isinstance(n, ast.Attribute) and isinstance(n.value, ast.Name) and n.value.id == 'logging':
                used.add(n.attr)
            if isinstance(n, ast.Attribute) and n.attr in ('getEffectiveLevel', 'isEnabledFor', 'hasHandlers', 'handlers', 'level', 'root'):
                if root_name(n) == 'logging':
                    write_only = False
    extra = used - LOGGING_WRITE_ONLY
    if extra:
        write_only = False
        failures.append(f'logging attributes outside the write-only set are used: {sorted(extra)}')
    return first_wins, write_only


def scan_writes(src):
    """file-writing calls in functions reachable (by name) from materialize_set"""
    funcs = {}
    for rel in src_files(src):
        for q, fn in walk_functions(src.tree(rel)):
            funcs[(rel, q)] = fn
    by_simple = {}
    for (rel, q) in funcs:
        by_simple.setdefault(q.split('.')[-1], []).append((rel, q))
    reach, todo = set(), [k for k in funcs if k == ('__init__.py', 'materialize_set')]
    while todo:
        k = todo.pop()
        if k in reach:
            continue
        reach.add(k)
        for n in ast.walk(funcs[k]):
            if isinstance(n, ast.Call):
                nm = n.func.id if isinstance(n.func, ast.Name) else (n.func.attr if isinstance(n.func, ast.Attribute) else None)
                if nm == 'Config':
                    nm = None
                for k2 in by_simple.get(nm, []):
                    if k2 not in reach:
                        todo.append(k2)
    out = []
    for (rel, q) in sorted(reach):
        for n in own_nodes(funcs[(rel, q)]):
            if not isinstance(n, ast.Call):
                continue
            fu = unparse(n.func)
            if fu == 'open':
                mode = n.args[1] if len(n.args) > 1 else next((k.value for k in n.keywords if k.arg == 'mode'), None)
                if mode is not None and not (isinstance(mode, ast.Constant) and isinstance(mode.value, str) and not set(mode.value) & set('wax+')):
                    out.append(f'write {rel}:{q}:open({unparse(mode)})')
            elif isinstance(n.func, ast.Attribute):
                r = root_name(n.func.value)
                if r in ('os', 'shutil', 'pathlib') and n.func.attr in OS_WRITE:
                    out.append(f'write {rel}:{q}:{fu}')
                elif n.func.attr in TO_WRITE:
                    out.append(f'write {rel}:{q}:{fu}')
                elif fu == 'logging.basicConfig' and any(k.arg == 'filename' for k in n.keywords):
                    out.append(f'write {rel}:{q}:logging.basicConfig(filename)')
    seen, res = set(), []
    for o in out:
        if o not in seen:
            seen.add(o)
            res.append(o)
    return res, sorted(f'{rel}:{q}' for rel, q in reach)


def lean_strs(xs):
    def q(s):
        return '"' + s.replace('\\', '\\\\').replace('"', '\\"') + '"'
    return '[' + ', '.join(q(x) for x in xs) + ']' if xs else '([] : List String)'


def generate(src, env, out, summary):
    failures = []
    udf_kind, only_if_not_bif = scan_load_udfs(src, failures)
    ram = scan_get_ram_data(src, failures)
    cfg_ok = scan_materialize_set(src, failures)
    state = scan_global_state(src, failures)
    defaults, mutated_defaults = scan_defaults(src)
    first_wins, write_only = scan_logging(src, failures)
    writes, reach = scan_writes(src)
    found = state + defaults + writes
    unlisted = [e for e in found if e not in ALLOW_STATE]
    b = lambda x: 'true' if x else 'false'
    lines = [HEADER, 'import MorphKgc.Model.Proc', '', 'namespace Gen', 'open Model.Proc', '',
             '/-- what the process-level mechanisms of /repo look like now (tools/gen/C16.py) -/',
             'def procShape : Shape := {',
             f'  udfLoad := .{udf_kind},',
             f'  udfOnlyIfNotBuiltin := {b(only_if_not_bif)},',
             f'  frameMutatesCaller := {b(ram["frameMutates"])},',
             f'  frameReturnsCopy := {b(ram["frameReturnsCopy"])},',
             f'  othersReadOnly := {b(ram["othersReadOnly"])},',
             f'  loggerFirstCallWins := {b(first_wins)},',
             f'  loggingWriteOnly := {b(write_only)},',
             f'  configRebuiltPerCall := {b(cfg_ok)} }}', '',
             '/-- process-global state, mutable defaults and file-writing calls found in the package -/',
             'def procState : List String := ' + lean_strs(found), '',
             '/-- mutable default arguments that their function mutates -/',
             'def procMutatedDefaults : List String := ' + lean_strs(mutated_defaults), '',
             '/-- entries of `procState` that are not in the allow-list of tools/gen/C16.py -/',
             'def procUnlisted : List String := ' + lean_strs(unlisted), '',
             f'def procTranslated : Bool := {b(not failures)}', '', 'end Gen', '']
    write_if_changed(os.path.join(out, 'Proc.lean'), '\n'.join(lines))
    summary['proc'] = {'udf_load': udf_kind, 'udf_only_if_not_builtin': only_if_not_bif, 'ram': ram, 'config_rebuilt': cfg_ok,
                       'state': state, 'defaults': defaults, 'mutated_defaults': mutated_defaults, 'writes': writes,
                       'logger_first_call_wins': first_wins, 'logging_write_only': write_only,
                       'unlisted': unlisted, 'allow_list': sorted(ALLOW_STATE), 'reachable_functions': len(reach),
                       'failures': failures}
