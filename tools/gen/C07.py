"""C07: the join code of the working tree -> Gen/Join.lean

Read from the AST (never from a stored copy):
  * `materializer._merge_data`: the prefix given to the parent frame and to the parent join references, the length test that
    selects the index path, which reference list each frame is indexed by and `drop=`, `how=` of `DataFrame.join` (pandas
    default 'left') and of `DataFrame.merge` (default 'inner'), `left_on=` / `right_on=`;
  * `utils.get_references_in_join_condition` (which dictionary key feeds the first / the second returned list, one append each,
    no early exit), `mapping_parser._get_join_conditions_dict` (dictionary key <- attribute of the query result),
    `RML_JOIN_CONDITION_PARSING_QUERY` (RML property -> variable);
  * the referencing-object-map branch of `materializer._materialize_rml_rule` and `_add_references_in_join_condition`
    (parent references = parent SUBJECT references + parent join references; alias; object term from the parent subject map);
  * `MappingParser._remove_self_joins_no_condition`: the tests under which a join is replaced by the row itself.
A construct that is not recognised is a failure in summary['join'] (never guessed); the Lean file then carries the value that
could be read (or a value for which the side conditions fail) and `joinTranslated = false`.
"""
import ast
import os
import re

from extract import HEADER, lean_str, write_if_changed


def _u(n):
    return ' '.join(ast.unparse(n).split())


def _body(fn):
    b = list(fn.body)
    if b and isinstance(b[0], ast.Expr) and isinstance(b[0].value, ast.Constant) and isinstance(b[0].value.value, str):
        b = b[1:]
    return b


def _const_str(n):
    return n.value if isinstance(n, ast.Constant) and isinstance(n.value, str) else None


HOWS = ('inner', 'left', 'right', 'outer', 'cross')


# ----------------------------------------------------------------------------------------------------
# _merge_data
# ----------------------------------------------------------------------------------------------------

def merge_shape(src, failures):
    sh = {'addPrefix': '', 'refPrefix': '', 'indexPathLen': 0, 'indexChildBy': 'parent', 'indexParentBy': 'child', 'indexDrop': True,
          'joinHow': 'left', 'mergeHow': 'cross', 'mergeLeftOn': 'parent', 'mergeRightOn': 'child'}
    W = '_merge_data: '
    try:
        fn = src.func('materializer.py', '_merge_data')
    except KeyError:
        failures.append(W + 'not found')
        return sh
    params = [a.arg for a in fn.args.args]
    if len(params) != 4 or fn.args.vararg or fn.args.kwarg or fn.args.kwonlyargs:
        failures.append(W + 'unexpected parameters ' + _u(fn.args))
        return sh
    frame = {params[0]: 'child', params[1]: 'parent'}      # variable -> which frame it holds
    rule_v, cond_v = params[2], params[3]
    lists = {}                                             # variable -> 'child' (first returned list) | 'parent' (second)
    prefixed = set()
    body = _body(fn)
    if not body or not isinstance(body[-1], ast.If):
        failures.append(W + 'the function does not end with the `if len(…) == n: … else: …` of the two code paths')
        return sh
    for st in body[:-1]:
        ok = False
        if isinstance(st, ast.Assign) and len(st.targets) == 1:
            t, v = st.targets[0], st.value
            # X = P.add_prefix('…')
            if isinstance(t, ast.Name) and isinstance(v, ast.Call) and isinstance(v.func, ast.Attribute) and v.func.attr == 'add_prefix' \
                    and isinstance(v.func.value, ast.Name) and frame.get(v.func.value.id) == 'parent' and len(v.args) == 1 and not v.keywords \
                    and _const_str(v.args[0]) is not None and t.id not in (rule_v, cond_v):
                if sh['addPrefix']:
                    failures.append(W + 'the parent frame is prefixed twice')
                sh['addPrefix'] = _const_str(v.args[0])
                frame[t.id] = 'parent'
                ok = True
            # A, B = get_references_in_join_condition(rule, cond)
            elif isinstance(t, ast.Tuple) and len(t.elts) == 2 and all(isinstance(e, ast.Name) for e in t.elts) and isinstance(v, ast.Call) \
                    and _u(v) == f'get_references_in_join_condition({rule_v}, {cond_v})':
                lists[t.elts[0].id] = 'child'
                lists[t.elts[1].id] = 'parent'
                ok = True
            # B = ['…' + r for r in B]
            elif isinstance(t, ast.Name) and isinstance(v, ast.ListComp) and len(v.generators) == 1 and not v.generators[0].ifs \
                    and isinstance(v.generators[0].iter, ast.Name) and lists.get(v.generators[0].iter.id) == 'parent' \
                    and isinstance(v.generators[0].target, ast.Name) and isinstance(v.elt, ast.BinOp) and isinstance(v.elt.op, ast.Add) \
                    and _const_str(v.elt.left) is not None and isinstance(v.elt.right, ast.Name) and v.elt.right.id == v.generators[0].target.id:
                if v.generators[0].iter.id in prefixed:
                    failures.append(W + 'the parent join references are prefixed twice')
                sh['refPrefix'] = _const_str(v.elt.left)
                lists[t.id] = 'parent'
                prefixed.add(t.id)
                ok = True
        if not ok:
            failures.append(W + 'unrecognised statement `' + _u(st)[:160] + '`')
    br = body[-1]
    # if len(L) == n
    tst = br.test
    if isinstance(tst, ast.Compare) and len(tst.ops) == 1 and isinstance(tst.ops[0], ast.Eq) and isinstance(tst.left, ast.Call) \
            and _u(tst.left.func) == 'len' and len(tst.left.args) == 1 and isinstance(tst.left.args[0], ast.Name) \
            and tst.left.args[0].id in lists and isinstance(tst.comparators[0], ast.Constant) and isinstance(tst.comparators[0].value, int):
        sh['indexPathLen'] = tst.comparators[0].value
    else:
        failures.append(W + 'unrecognised branch condition `' + _u(tst) + '`')
    # index path
    fr = dict(frame)
    drops = []
    ret = None
    for st in br.body:
        ok = False
        if isinstance(st, ast.Assign) and len(st.targets) == 1 and isinstance(st.targets[0], ast.Name) and isinstance(st.value, ast.Call) \
                and isinstance(st.value.func, ast.Attribute) and st.value.func.attr == 'set_index' and isinstance(st.value.func.value, ast.Name) \
                and st.value.func.value.id in fr and st.targets[0].id == st.value.func.value.id:
            c = st.value
            kws = {k.arg: k.value for k in c.keywords}
            keys = c.args[0] if c.args else kws.get('keys')
            if keys is not None and isinstance(keys, ast.Name) and keys.id in lists and len(c.args) <= 1 and set(kws) <= {'keys', 'drop'}:
                side = lists[keys.id]
                which = fr[c.func.value.id]
                sh['indexChildBy' if which == 'child' else 'indexParentBy'] = side
                d = kws.get('drop')
                drops.append(True if d is None else (d.value if isinstance(d, ast.Constant) and isinstance(d.value, bool) else None))
                ok = True
        elif isinstance(st, ast.Return):
            ret = st.value
            ok = True
        if not ok:
            failures.append(W + 'index path: unrecognised statement `' + _u(st)[:160] + '`')
    if len(drops) != 2 or None in drops or drops[0] != drops[1]:
        failures.append(W + 'index path: expected one set_index(…, drop=<bool>) per frame with the same drop')
    else:
        sh['indexDrop'] = drops[0]
    if isinstance(ret, ast.Call) and isinstance(ret.func, ast.Attribute) and ret.func.attr == 'join' and isinstance(ret.func.value, ast.Name) \
            and fr.get(ret.func.value.id) == 'child' and len(ret.args) == 1 and isinstance(ret.args[0], ast.Name) and fr.get(ret.args[0].id) == 'parent':
        kws = {k.arg: k.value for k in ret.keywords}
        if set(kws) - {'how'}:
            failures.append(W + 'index path: unexpected keyword(s) of join: ' + ', '.join(sorted(set(kws) - {'how'})))
        h = kws.get('how')
        if h is None:
            sh['joinHow'] = 'left'
        elif _const_str(h) in HOWS:
            sh['joinHow'] = _const_str(h)
        else:
            failures.append(W + 'index path: unrecognised how=' + _u(h))
    else:
        failures.append(W + 'index path: the result is not `<child frame>.join(<parent frame>, how=…)`: `' + (_u(ret) if ret is not None else 'no return') + '`')
    # merge path
    if len(br.orelse) == 1 and isinstance(br.orelse[0], ast.Return):
        ret = br.orelse[0].value
        if isinstance(ret, ast.Call) and isinstance(ret.func, ast.Attribute) and ret.func.attr == 'merge' and isinstance(ret.func.value, ast.Name) \
                and frame.get(ret.func.value.id) == 'child' and len(ret.args) == 1 and isinstance(ret.args[0], ast.Name) and frame.get(ret.args[0].id) == 'parent':
            kws = {k.arg: k.value for k in ret.keywords}
            if set(kws) - {'how', 'left_on', 'right_on'}:
                failures.append(W + 'merge path: unexpected keyword(s) of merge: ' + ', '.join(sorted(set(kws) - {'how', 'left_on', 'right_on'})))
            h = kws.get('how')
            if h is None:
                sh['mergeHow'] = 'inner'
            elif _const_str(h) in HOWS:
                sh['mergeHow'] = _const_str(h)
            else:
                failures.append(W + 'merge path: unrecognised how=' + _u(h))
            for kw, fld in (('left_on', 'mergeLeftOn'), ('right_on', 'mergeRightOn')):
                x = kws.get(kw)
                if isinstance(x, ast.Name) and x.id in lists:
                    sh[fld] = lists[x.id]
                else:
                    failures.append(W + f'merge path: {kw} is not one of the two reference lists: `' + (_u(x) if x is not None else 'absent') + '`')
        else:
            failures.append(W + 'merge path: the result is not `<child frame>.merge(<parent frame>, …)`: `' + _u(ret) + '`')
    else:
        failures.append(W + 'merge path: expected a single return statement')
    return sh


# ----------------------------------------------------------------------------------------------------
# join conditions: query -> dict -> two lists
# ----------------------------------------------------------------------------------------------------

def join_cond_shape(src, failures):
    sh = {'queryVars': [], 'dictKeys': [], 'first': '', 'second': ''}
    # the query
    q = None
    try:
        for n in src.tree('mapping/mapping_constants.py').body:
            if isinstance(n, ast.Assign) and len(n.targets) == 1 and isinstance(n.targets[0], ast.Name) \
                    and n.targets[0].id == 'RML_JOIN_CONDITION_PARSING_QUERY' and _const_str(n.value) is not None:
                q = n.value.value
    except Exception as e:
        failures.append('mapping_constants.py: ' + repr(e))
    if q is None:
        failures.append('RML_JOIN_CONDITION_PARSING_QUERY not found')
    else:
        m = re.search(r'\?term_map\s+rml:joinCondition\s+\?(\w+)\s*\.\s*\?(\w+)\s+(rml:\w+\s+\?\w+(?:\s*;\s*rml:\w+\s+\?\w+)*)\s*\.?\s*}', q)
        if not m or m.group(1) != m.group(2):
            failures.append('RML_JOIN_CONDITION_PARSING_QUERY: unrecognised graph pattern')
        else:
            sh['queryVars'] = re.findall(r'rml:(\w+)\s+\?(\w+)', m.group(3))
            if 'OPTIONAL' in q or 'FILTER' in q or 'UNION' in q:
                failures.append('RML_JOIN_CONDITION_PARSING_QUERY: unexpected OPTIONAL / FILTER / UNION')
    # the dictionary
    try:
        fn = src.func('mapping/mapping_parser.py', '_get_join_conditions_dict')
        dicts = [n for n in ast.walk(fn) if isinstance(n, ast.Dict) and n.keys and all(_const_str(k) is not None for k in n.keys)]
        loops = [n for n in ast.walk(fn) if isinstance(n, ast.For)]
        if len(dicts) != 1 or len(loops) != 1 or not isinstance(loops[0].target, ast.Name):
            failures.append('_get_join_conditions_dict: expected one loop storing one dictionary literal per join condition')
        else:
            var = loops[0].target.id
            if _u(loops[0].iter) != [a.arg for a in fn.args.args][0]:
                failures.append('_get_join_conditions_dict: the loop does not run over all query results: `' + _u(loops[0].iter) + '`')
            if any(isinstance(n, (ast.Break, ast.Continue)) for n in ast.walk(loops[0])):
                failures.append('_get_join_conditions_dict: early exit from the loop')
            for k, v in zip(dicts[0].keys, dicts[0].values):
                mm = re.fullmatch(r'str\(%s\.(\w+)\)' % re.escape(var), _u(v))
                if not mm:
                    failures.append('_get_join_conditions_dict: unrecognised value `' + _u(v) + '`')
                else:
                    sh['dictKeys'].append((k.value, mm.group(1)))
            # stored under [term_map][str(join_condition)]
            stores = [n for n in ast.walk(loops[0]) if isinstance(n, ast.Assign) and n.value is dicts[0]]
            if len(stores) != 1 or _u(stores[0].targets[0]) != f'join_conditions_dict[{var}.term_map][str({var}.join_condition)]':
                failures.append('_get_join_conditions_dict: the condition is not stored under [term_map][str(join_condition)]')
    except KeyError:
        failures.append('_get_join_conditions_dict not found')
    # the two lists
    try:
        fn = src.func('utils.py', 'get_references_in_join_condition')
        body = _body(fn)
        ret = body[-1] if body else None
        if not (isinstance(ret, ast.Return) and isinstance(ret.value, ast.Tuple) and len(ret.value.elts) == 2
                and all(isinstance(e, ast.Name) for e in ret.value.elts)):
            failures.append('get_references_in_join_condition: does not end with `return <list>, <list>`')
        else:
            first, second = ret.value.elts[0].id, ret.value.elts[1].id
            if first == second:
                failures.append('get_references_in_join_condition: the same list is returned twice')
            loops = [n for n in ast.walk(fn) if isinstance(n, ast.For)]
            if len(loops) != 1 or not isinstance(loops[0].target, ast.Name) or not re.fullmatch(r'\w+\.values\(\)', _u(loops[0].iter)):
                failures.append('get_references_in_join_condition: expected one loop over `<conditions>.values()`')
            else:
                var = loops[0].target.id
                if any(isinstance(n, (ast.Break, ast.Continue, ast.Return, ast.If)) for n in ast.walk(loops[0])):
                    failures.append('get_references_in_join_condition: the loop over the conditions has an early exit or a test')
                apps = {}
                for st in loops[0].body:
                    mm = re.fullmatch(r"(\w+)\.append\(%s\['(\w+)'\]\)" % re.escape(var), _u(st))
                    if not mm:
                        failures.append('get_references_in_join_condition: unrecognised loop statement `' + _u(st)[:120] + '`')
                    else:
                        apps.setdefault(mm.group(1), []).append(mm.group(2))
                if len(apps.get(first, [])) != 1 or len(apps.get(second, [])) != 1:
                    failures.append('get_references_in_join_condition: expected exactly one append per returned list')
                else:
                    sh['first'], sh['second'] = apps[first][0], apps[second][0]
                # what is evaluated: the column named by the parameter, guarded by notna / non-empty
                evs = [n for n in ast.walk(fn) if isinstance(n, ast.Call) and _u(n.func) == 'eval']
                p0, p1 = [a.arg for a in fn.args.args][:2]
                if len(evs) != 1 or _u(evs[0]) != f'eval({p0}[{p1}])':
                    failures.append('get_references_in_join_condition: the conditions are not `eval(rml_rule[join_conditions])`')
                if _u(loops[0].iter) != f'{p1}.values()':
                    failures.append('get_references_in_join_condition: the loop does not run over all the conditions')
    except KeyError:
        failures.append('get_references_in_join_condition not found')
    return sh


# ----------------------------------------------------------------------------------------------------
# the referencing branch of _materialize_rml_rule
# ----------------------------------------------------------------------------------------------------

BRANCH_EXPECTED = [
    'references.update(references_object_join)',
    "parent_triples_map_rule = get_rml_rule(rml_df, rml_rule['object_map_value'])",
    None,      # parent references (parsed)
    'references, parent_references = _add_references_in_join_condition(rml_rule, references, parent_references)',
    'if data is None: data = _get_data(config, rml_rule, references, python_source)',
    'parent_data = _get_data(config, parent_triples_map_rule, parent_references, python_source)',
    "merged_data = _merge_data(data, parent_data, rml_rule, 'object_join_conditions')",
    "rml_rule['object_map_type'] = parent_triples_map_rule['subject_map_type']",
    "rml_rule['object_map_value'] = parent_triples_map_rule['subject_map_value']",
    None,      # the terms call (parsed)
]


def ref_branch_shape(src, failures):
    sh = {'parentSubjectOnly': False, 'parentJoinRefsAdded': False, 'childJoinRefsAdded': False, 'alias': '', 'objectFromParentSubject': False}
    W = '_materialize_rml_rule (referencing branch): '
    try:
        fn = src.func('materializer.py', '_materialize_rml_rule')
    except KeyError:
        failures.append(W + 'function not found')
        return sh
    branch = None
    for n in ast.walk(fn):
        if isinstance(n, ast.If) and _u(n.test) == "rml_rule['object_map_type'] == RML_PARENT_TRIPLES_MAP":
            branch = n
    if branch is None:
        failures.append(W + "no branch `rml_rule['object_map_type'] == RML_PARENT_TRIPLES_MAP`")
        return sh
    # the object join references used in the branch come from get_references_in_join_condition(rml_rule, 'object_join_conditions')
    pre = [_u(s) for s in _body(fn)]
    if "references_object_join, parent_references_object_join = get_references_in_join_condition(rml_rule, 'object_join_conditions')" not in pre:
        failures.append(W + 'references_object_join is not `get_references_in_join_condition(rml_rule, \'object_join_conditions\')[0]`')
    if 'references = set(_get_references_in_rml_rule(rml_rule, rml_df, fnml_df))' not in pre:
        failures.append(W + 'the child references are not `set(_get_references_in_rml_rule(rml_rule, rml_df, fnml_df))`')
    stmts = [_u(s) for s in branch.body]
    expected = set(x for x in BRANCH_EXPECTED if x)
    seen = set()
    objt = objv = False
    for s_ast, s in zip(branch.body, stmts):
        if s in expected:
            seen.add(s)
            objt = objt or s == BRANCH_EXPECTED[7]
            objv = objv or s == BRANCH_EXPECTED[8]
            continue
        m = re.fullmatch(r'parent_references = set\(_get_references_in_rml_rule\(parent_triples_map_rule, rml_df, fnml_df(?:, only_subject_map=(True|False))?\)\)', s)
        if m:
            sh['parentSubjectOnly'] = m.group(1) == 'True'
            continue
        m = re.fullmatch(r"data = _materialize_rml_rule_terms\(merged_data, rml_rule, fnml_df, config(?:, columns_alias=('[^']*'))?\)", s)
        if m:
            sh['alias'] = ast.literal_eval(m.group(1)) if m.group(1) else ''
            continue
        failures.append(W + 'unrecognised statement `' + s[:170] + '`')
    for x in expected - seen:
        if x not in (BRANCH_EXPECTED[0], BRANCH_EXPECTED[7], BRANCH_EXPECTED[8]):
            failures.append(W + 'missing statement `' + x + '`')
    sh['objectFromParentSubject'] = objt and objv
    if objt != objv:
        failures.append(W + 'only one of object_map_type / object_map_value is taken from the parent subject map')
    # order: the object map is replaced before the terms are built, the frames are read after the references are complete
    def pos(pred):
        for i, s in enumerate(stmts):
            if pred(s):
                return i
        return None
    i_add = pos(lambda s: s == BRANCH_EXPECTED[3])
    i_read = [pos(lambda s: s == BRANCH_EXPECTED[4]), pos(lambda s: s == BRANCH_EXPECTED[5])]
    i_terms = pos(lambda s: s.startswith('data = _materialize_rml_rule_terms('))
    i_obj = [pos(lambda s: s == BRANCH_EXPECTED[7]), pos(lambda s: s == BRANCH_EXPECTED[8])]
    i_merge = pos(lambda s: s == BRANCH_EXPECTED[6])
    if i_add is not None and any(i is not None and i < i_add for i in i_read):
        failures.append(W + 'a frame is read before the join references are added to the references')
    if i_terms is not None and any(i is not None and i > i_terms for i in i_obj + [i_merge]):
        failures.append(W + 'the terms are built before the merge / before the object map is replaced')
    if i_merge is not None and any(i is not None and i > i_merge for i in i_read):
        failures.append(W + 'a frame is read after the merge')
    # _add_references_in_join_condition
    try:
        fa = src.func('materializer.py', '_add_references_in_join_condition')
        b = [_u(s) for s in _body(fa)]
        params = [a.arg for a in fa.args.args]
        if params != ['rml_rule', 'references', 'parent_references']:
            failures.append('_add_references_in_join_condition: unexpected parameters')
        if "references_join, parent_references_join = get_references_in_join_condition(rml_rule, 'object_join_conditions')" not in b:
            failures.append('_add_references_in_join_condition: the join references are not those of object_join_conditions')
        known = {"references_join, parent_references_join = get_references_in_join_condition(rml_rule, 'object_join_conditions')",
                 'references.update(set(references_join))', 'parent_references.update(set(parent_references_join))',
                 'references.update(references_join)', 'parent_references.update(parent_references_join)',
                 'return (references, parent_references)', 'return references, parent_references'}
        for s in b:
            if s not in known:
                failures.append('_add_references_in_join_condition: unrecognised statement `' + s[:140] + '`')
        sh['childJoinRefsAdded'] = any(s in b for s in ('references.update(set(references_join))', 'references.update(references_join)')) \
            or BRANCH_EXPECTED[0] in stmts
        sh['parentJoinRefsAdded'] = any(s in b for s in ('parent_references.update(set(parent_references_join))', 'parent_references.update(parent_references_join)'))
        if not any(s.startswith('return') for s in b):
            failures.append('_add_references_in_join_condition: no return')
    except KeyError:
        failures.append('_add_references_in_join_condition not found')
    # _get_references_in_rml_rule: only_subject_map restricts BOTH position lists to the subject
    try:
        fr = src.func('materializer.py', '_get_references_in_rml_rule')
        t = _u(fr)
        if t.count("['subject'] if only_subject_map else") != 2:
            failures.append('_get_references_in_rml_rule: only_subject_map does not restrict both position lists to the subject')
    except KeyError:
        failures.append('_get_references_in_rml_rule not found')
    return sh


# ----------------------------------------------------------------------------------------------------
# _remove_self_joins_no_condition
# ----------------------------------------------------------------------------------------------------

REPAIR_STMTS = [
    "join_references = set(get_references_in_join_condition(rml_rule, 'object_join_conditions')[1])",
    'if join_references and join_references != _get_subject_map_references(parent_triples_map_rule): remove_join = False',
]
SUBJECT_REFS_FN = ("def _get_subject_map_references(rml_rule): if rml_rule['subject_map_type'] == RML_TEMPLATE: return "
                   "set(get_references_in_template(rml_rule['subject_map_value'])) elif rml_rule['subject_map_type'] == RML_REFERENCE: "
                   "return {rml_rule['subject_map_value']} elif rml_rule['subject_map_type'] == RML_CONSTANT: return set() return None")
ASSIGNS = [
    "self.rml_df.at[i, 'object_map_type'] = parent_triples_map_rule.at['subject_map_type']",
    "self.rml_df.at[i, 'object_map_value'] = parent_triples_map_rule.at['subject_map_value']",
    "self.rml_df.at[i, 'object_termtype'] = parent_triples_map_rule.at['subject_termtype']",
    "self.rml_df.at[i, 'object_join_conditions'] = None",
]


def elim_shape(src, failures):
    sh = {'sameSource': False, 'sameIterator': False, 'sameColumns': False, 'subjRefs': 'unchecked', 'sameSection': False}
    W = '_remove_self_joins_no_condition: '
    try:
        fn = src.func('mapping/mapping_parser.py', '_remove_self_joins_no_condition', cls='MappingParser')
    except KeyError:
        failures.append(W + 'not found')
        return sh
    body = _body(fn)
    if len(body) != 1 or not isinstance(body[0], ast.For) or _u(body[0].iter) != 'self.rml_df.iterrows()' or _u(body[0].target) != '(i, rml_rule)':
        failures.append(W + 'expected a single loop `for i, rml_rule in self.rml_df.iterrows()`')
        return sh
    lb = body[0].body
    if len(lb) != 1 or not isinstance(lb[0], ast.If) or _u(lb[0].test) != "rml_rule['object_map_type'] == RML_PARENT_TRIPLES_MAP" or lb[0].orelse:
        failures.append(W + 'expected the test `object_map_type == RML_PARENT_TRIPLES_MAP`')
        return sh
    ib = lb[0].body
    if len(ib) != 2 or _u(ib[0]) != "parent_triples_map_rule = get_rml_rule(self.rml_df, rml_rule['object_map_value'])" or not isinstance(ib[1], ast.If) or ib[1].orelse:
        failures.append(W + 'unrecognised body of the parentTriplesMap test')
        return sh
    tst = ib[1].test
    conj = tst.values if isinstance(tst, ast.BoolOp) and isinstance(tst.op, ast.And) else [tst]
    for c in conj:
        t = _u(c)
        if t == "rml_rule['logical_source_value'] == parent_triples_map_rule['logical_source_value']":
            sh['sameSource'] = True
        elif t == "str(rml_rule['iterator']) == str(parent_triples_map_rule['iterator'])":
            sh['sameIterator'] = True
        elif t == "rml_rule['source_name'] == parent_triples_map_rule['source_name']":
            # the repair of C07_F5: both rules come from the same configuration section
            sh['sameSection'] = True
        else:
            failures.append(W + 'unrecognised test `' + t[:140] + '`')
    core = ib[1].body
    texts = [_u(s) for s in core]
    i = 0
    if not texts or texts[0] != 'remove_join = True':
        failures.append(W + 'expected `remove_join = True` first')
        return sh
    i = 1
    # the try block comparing child_value and parent_value
    if i < len(core) and isinstance(core[i], ast.Try):
        tr = core[i]
        tb = [_u(s) for s in tr.body]
        if len(tb) == 2 and tb[0] == "join_conditions = eval(rml_rule['object_join_conditions'])" and \
                tb[1] == "for key, join_condition in join_conditions.items(): if join_condition['child_value'] != join_condition['parent_value']: remove_join = False":
            sh['sameColumns'] = True
        else:
            failures.append(W + 'unrecognised try block `' + ' ; '.join(tb)[:200] + '`')
        hs = tr.handlers
        if len(hs) != 1 or [_u(s) for s in hs[0].body] != ['remove_join = True'] or tr.orelse or tr.finalbody:
            failures.append(W + 'unrecognised exception handler')
        i += 1
    else:
        failures.append(W + 'the column comparison (try block) is missing')
    # the repair
    if texts[i:i + 2] == REPAIR_STMTS:
        sh['subjRefs'] = 'eqJoinCols'
        i += 2
        try:
            f2 = src.func('mapping/mapping_parser.py', '_get_subject_map_references')
            f2c = ast.FunctionDef(name=f2.name, args=f2.args, body=_body(f2), decorator_list=[], returns=None, type_comment=None, type_params=[])
            ast.fix_missing_locations(f2c)
            if _u(f2c) != SUBJECT_REFS_FN:
                failures.append('_get_subject_map_references: unrecognised body')
        except KeyError:
            failures.append('_get_subject_map_references not found')
    # the rewriting
    if i < len(core) and isinstance(core[i], ast.If) and _u(core[i].test) == "remove_join and pd.notna(rml_rule['object_join_conditions'])" and not core[i].orelse:
        ab = [_u(s) for s in core[i].body if not _u(s).startswith('logging.')]
        if sorted(ab) != sorted(ASSIGNS):
            failures.append(W + 'unrecognised rewriting `' + ' ; '.join(ab)[:240] + '`')
        i += 1
    else:
        failures.append(W + 'the rewriting `if remove_join and pd.notna(…)` is missing or changed')
    for s in texts[i:]:
        failures.append(W + 'unrecognised statement `' + s[:160] + '`')
    # it is called as part of _preprocess_mappings
    try:
        pp = src.func('mapping/mapping_parser.py', '_preprocess_mappings', cls='MappingParser')
        if 'self._remove_self_joins_no_condition()' not in [_u(s) for s in pp.body]:
            failures.append('_preprocess_mappings does not call _remove_self_joins_no_condition')
    except KeyError:
        failures.append('_preprocess_mappings not found')
    return sh


# ----------------------------------------------------------------------------------------------------
# RML_PARSING_QUERY: how the object maps of a predicate-object map are collected
# ----------------------------------------------------------------------------------------------------

OBJ_A = '?_predicate_object_map rml:objectMap ?object_map . ?object_map ?object_map_type ?object_map_value .'
OBJ_B = '?_predicate_object_map rml:objectMap ?object_map . ?object_map rml:parentTriplesMap ?object_map_value .'


def object_query_shape(src, failures):
    q = None
    for n in src.tree('mapping/mapping_constants.py').body:
        if isinstance(n, ast.Assign) and len(n.targets) == 1 and isinstance(n.targets[0], ast.Name) \
                and n.targets[0].id == 'RML_PARSING_QUERY' and _const_str(n.value) is not None:
            q = n.value.value
    if q is None:
        failures.append('RML_PARSING_QUERY not found')
        return 'twoOptionals'
    t = ' '.join(re.sub(r'#[^\n]*', '', q).split())
    ia, ib = t.find(OBJ_A), t.find(OBJ_B)
    if ia < 0 or ib < 0 or t.count(OBJ_A) != 1 or t.count(OBJ_B) != 1 or ia > ib:
        failures.append('RML_PARSING_QUERY: the term-valued / referencing object map patterns were not found once each, in this order')
        return 'twoOptionals'
    # the group that contains pattern A: from its opening brace to the matching closing brace
    open_a = t.rfind('{', 0, ia)
    depth, j = 0, open_a
    while j < len(t):
        if t[j] == '{':
            depth += 1
        elif t[j] == '}':
            depth -= 1
            if depth == 0:
                break
        j += 1
    between = t[j + 1:ib].strip()
    before_a = t[:open_a].rstrip()
    if between == 'OPTIONAL {' and before_a.endswith('OPTIONAL') and t[open_a + 1:ia].strip() == '':
        return 'twoOptionals'
    if between == 'UNION {' and before_a.endswith('OPTIONAL {') and t[open_a + 1:ia].strip() == '':
        return 'union'
    failures.append('RML_PARSING_QUERY: unrecognised combination of the two object-map patterns: `… } ' + between[:60] + ' …`')
    return 'twoOptionals'


# ----------------------------------------------------------------------------------------------------

def _b(x):
    return 'true' if x else 'false'


def _pairs(ps):
    return '[' + ', '.join(f'({lean_str(a)}, {lean_str(b)})' for a, b in ps) + ']'


def generate(src, env, out, summary):
    failures = []
    try:
        ms = merge_shape(src, failures)
    except Exception as e:  # noqa
        failures.append('_merge_data: translator error ' + repr(e))
        ms = {'addPrefix': '', 'refPrefix': '', 'indexPathLen': 0, 'indexChildBy': 'parent', 'indexParentBy': 'child', 'indexDrop': True,
              'joinHow': 'left', 'mergeHow': 'cross', 'mergeLeftOn': 'parent', 'mergeRightOn': 'child'}
    try:
        jc = join_cond_shape(src, failures)
    except Exception as e:  # noqa
        failures.append('join conditions: translator error ' + repr(e))
        jc = {'queryVars': [], 'dictKeys': [], 'first': '', 'second': ''}
    try:
        rb = ref_branch_shape(src, failures)
    except Exception as e:  # noqa
        failures.append('referencing branch: translator error ' + repr(e))
        rb = {'parentSubjectOnly': False, 'parentJoinRefsAdded': False, 'childJoinRefsAdded': False, 'alias': '', 'objectFromParentSubject': False}
    try:
        es = elim_shape(src, failures)
    except Exception as e:  # noqa
        failures.append('_remove_self_joins_no_condition: translator error ' + repr(e))
        es = {'sameSource': False, 'sameIterator': False, 'sameColumns': False, 'subjRefs': 'unchecked', 'sameSection': False}
    try:
        oq = object_query_shape(src, failures)
    except Exception as e:  # noqa
        failures.append('RML_PARSING_QUERY: translator error ' + repr(e))
        oq = 'twoOptionals'
    lines = [HEADER, 'import MorphKgc.Model.JoinTypes', '', 'namespace Gen', 'open Py Model', '',
             '/-- `materializer._merge_data` -/',
             'def mergeShape : MergeShape :=',
             f'  {{ addPrefix := {lean_str(ms["addPrefix"])}, refPrefix := {lean_str(ms["refPrefix"])}, indexPathLen := {ms["indexPathLen"]},',
             f'    indexChildBy := .{ms["indexChildBy"]}, indexParentBy := .{ms["indexParentBy"]}, indexDrop := {_b(ms["indexDrop"])},',
             f'    joinHow := .{ms["joinHow"]}, mergeHow := .{ms["mergeHow"]}, mergeLeftOn := .{ms["mergeLeftOn"]}, mergeRightOn := .{ms["mergeRightOn"]} }}', '',
             '/-- `RML_JOIN_CONDITION_PARSING_QUERY`, `_get_join_conditions_dict`, `get_references_in_join_condition` -/',
             'def joinCondShape : JoinCondShape :=',
             f'  {{ queryVars := {_pairs(jc["queryVars"])},',
             f'    dictKeys := {_pairs(jc["dictKeys"])},',
             f'    firstListKey := {lean_str(jc["first"])}, secondListKey := {lean_str(jc["second"])} }}', '',
             '/-- the referencing-object-map branch of `_materialize_rml_rule`, `_add_references_in_join_condition` -/',
             'def refBranchShape : RefBranchShape :=',
             f'  {{ parentSubjectOnly := {_b(rb["parentSubjectOnly"])}, parentJoinRefsAdded := {_b(rb["parentJoinRefsAdded"])}, '
             f'childJoinRefsAdded := {_b(rb["childJoinRefsAdded"])},',
             f'    alias := {lean_str(rb["alias"])}, objectFromParentSubject := {_b(rb["objectFromParentSubject"])} }}', '',
             '/-- `MappingParser._remove_self_joins_no_condition` -/',
             'def elimShape : ElimShape :=',
             f'  {{ sameSource := {_b(es["sameSource"])}, sameIterator := {_b(es["sameIterator"])}, sameColumns := {_b(es["sameColumns"])}, '
             f'subjRefs := .{es["subjRefs"]}, sameSection := {_b(es["sameSection"])} }}', '',
             '/-- the object-map part of `RML_PARSING_QUERY` -/',
             f'def objectQueryShape : ObjectQueryShape := .{oq}', '',
             f'def joinTranslated : Bool := {_b(not failures)}', '',
             'end Gen', '']
    write_if_changed(os.path.join(out, 'Join.lean'), '\n'.join(lines))
    summary['join'] = {'merge': ms, 'join_conditions': {k: v for k, v in jc.items()}, 'ref_branch': rb, 'elimination': es, 'object_query': oq, 'failures': failures}
