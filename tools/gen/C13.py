"""C13: the RDF-star branch of materializer._materialize_rml_rule, _merge_data, the asserted filter of __init__/__main__,
and mapping_parser._expand_rml_star / _normalize_rml_star / the star parts of _complete_termtypes and
_complete_triples_map_class  ->  Gen/Star.lean

Syntactic: every statement of the star branch must be one of the recognised forms (string constants, the `nest_level`
arithmetic, the keyword arguments of the recursive calls, the `keep_subject` key, the join flavour are read out as data);
the parser functions are compared statement by statement (local names abstracted) with the transcribed statement lists
below.  Anything else is a translation failure (summary['star']['failures']); the corresponding flag of Gen/Star.lean is
`false`, so the side condition `Props.C13.gen_shape` no longer `decide`s.
"""
import ast
import os
import re

from extract import HEADER, write_if_changed, lean_str


def norm(node):
    return ' '.join(ast.unparse(node).split())


def lean_bool(b):
    return 'true' if b else 'false'


def strip_doc(body):
    if body and isinstance(body[0], ast.Expr) and isinstance(body[0].value, ast.Constant) and isinstance(body[0].value.value, str):
        return body[1:]
    return body


def is_quoted_test(node, pos):
    return norm(node) == f"rml_rule['{pos}_map_type'] == RML_QUOTED_TRIPLES_MAP"


def wrap_site(st, pos):
    """data['<pos>'] = '<< ' + data['<col>'] + ' >>'  ->  (open, col, close)"""
    if not (isinstance(st, ast.Assign) and len(st.targets) == 1 and norm(st.targets[0]) == f"data['{pos}']"):
        return None
    v = st.value
    if isinstance(v, ast.BinOp) and isinstance(v.op, ast.Add) and isinstance(v.left, ast.BinOp) and isinstance(v.left.op, ast.Add):
        a, b, c = v.left.left, v.left.right, v.right
        if isinstance(a, ast.Constant) and isinstance(a.value, str) and isinstance(c, ast.Constant) and isinstance(c.value, str):
            m = re.fullmatch(r"data\['([A-Za-z_]+)'\]", norm(b))
            if m:
                return a.value, m.group(1), c.value
    return None


def recursive_call(st, target):
    """<target> = _materialize_rml_rule(parent_triples_map_rule, rml_df, fnml_df, config, **kw) -> kw as text"""
    if not (isinstance(st, ast.Assign) and len(st.targets) == 1 and norm(st.targets[0]) == target):
        return None
    c = st.value
    if not (isinstance(c, ast.Call) and norm(c.func) == '_materialize_rml_rule'):
        return None
    if [norm(a) for a in c.args] != ['parent_triples_map_rule', 'rml_df', 'fnml_df', 'config']:
        return None
    return {k.arg: norm(k.value) for k in c.keywords}


def nest_inc(text):
    m = re.fullmatch(r'nest_level \+ (\d+)', text or '')
    return int(m.group(1)) if m else None


def read_position(block, pos, failures, subject_guard):
    """the `if rml_rule['<pos>_map_type'] == RML_QUOTED_TRIPLES_MAP:` block"""
    out = {'wrap': [], 'inc': [], 'args_ok': True, 'keep': None, 'restore': None}
    body = list(block.body)
    if block.orelse:
        failures.append(f'{pos} block has an else branch')
    if not body or not isinstance(body[0], ast.If) or norm(body[0].test) != f"pd.notna(rml_rule['{pos}_join_conditions'])":
        failures.append(f'{pos} block does not start with `if pd.notna(rml_rule[\'{pos}_join_conditions\'])`')
        return out
    jb, nb = body[0].body, body[0].orelse
    # with join conditions
    exp_join = [f'references.update(references_{pos}_join)',
                f"parent_triples_map_rule = get_rml_rule(rml_df, rml_rule['{pos}_map_value'])", 'CALL',
                f"data = _merge_data(data, parent_data, rml_rule, '{pos}_join_conditions')", 'WRAP',
                "data = data.drop(columns=['parent_triple'])"]
    if len(jb) != len(exp_join):
        failures.append(f'{pos} join branch has {len(jb)} statements, expected {len(exp_join)}')
    else:
        for st, e in zip(jb, exp_join):
            if e == 'CALL':
                kw = recursive_call(st, 'parent_data')
                if kw is None or set(kw) != {'parent_join_references', 'nest_level'} or kw['parent_join_references'] != f'parent_references_{pos}_join':
                    failures.append(f'{pos} join branch: unrecognised recursive call: {norm(st)[:160]}')
                    out['args_ok'] = False
                else:
                    out['inc'].append(nest_inc(kw['nest_level']))
            elif e == 'WRAP':
                w = wrap_site(st, pos)
                if w is None:
                    failures.append(f'{pos} join branch: unrecognised wrap statement: {norm(st)[:160]}')
                else:
                    out['wrap'].append((pos, True) + w)
            elif norm(st) != e:
                failures.append(f'{pos} join branch: `{norm(st)[:120]}` is not `{e}`')
    # without join conditions
    exp_nojoin = [f"parent_triples_map_rule = get_rml_rule(rml_df, rml_rule['{pos}_map_value'])", 'CALL', 'WRAP']
    if len(nb) != len(exp_nojoin):
        failures.append(f'{pos} no-join branch has {len(nb)} statements, expected {len(exp_nojoin)}')
    else:
        for st, e in zip(nb, exp_nojoin):
            if e == 'CALL':
                kw = recursive_call(st, 'data')
                if kw is None or set(kw) != {'data', 'nest_level'} or kw['data'] != 'data':
                    failures.append(f'{pos} no-join branch: unrecognised recursive call: {norm(st)[:160]}')
                    out['args_ok'] = False
                else:
                    out['inc'].append(nest_inc(kw['nest_level']))
            elif e == 'WRAP':
                w = wrap_site(st, pos)
                if w is None:
                    failures.append(f'{pos} no-join branch: unrecognised wrap statement: {norm(st)[:160]}')
                else:
                    out['wrap'].append((pos, False) + w)
            elif norm(st) != e:
                failures.append(f'{pos} no-join branch: `{norm(st)[:120]}` is not `{e}`')
    rest = body[1:]
    if pos == 'subject':
        if len(rest) != 1:
            failures.append('subject block: expected exactly the keep_subject assignment after the join test')
        else:
            m = re.fullmatch(r"data\['([A-Za-z_]+)' \+ str\(nest_level\)\] = data\['subject'\]", norm(rest[0]))
            m0 = re.fullmatch(r"data\['([A-Za-z_]+)'\] = data\['subject'\]", norm(rest[0]))
            if m:
                out['keep'] = (m.group(1), True)
            elif m0:
                out['keep'] = (m0.group(1), False)
            else:
                failures.append('subject block: unrecognised keep statement: ' + norm(rest[0])[:160])
    else:
        if len(rest) != 1 or not isinstance(rest[0], ast.If) or not is_quoted_test(rest[0].test, 'subject') or rest[0].orelse \
                or len(rest[0].body) != 1:
            failures.append('object block: expected exactly the guarded restore of the subject after the join test')
        else:
            m = re.fullmatch(r"data\['subject'\] = data\['([A-Za-z_]+)' \+ str\(nest_level\)\]", norm(rest[0].body[0]))
            m0 = re.fullmatch(r"data\['subject'\] = data\['([A-Za-z_]+)'\]", norm(rest[0].body[0]))
            if m:
                out['restore'] = (m.group(1), True)
            elif m0:
                out['restore'] = (m0.group(1), False)
            else:
                failures.append('object block: unrecognised restore statement: ' + norm(rest[0].body[0])[:160])
    return out


def read_star_branch(src, failures):
    res = {'wrap': [], 'inc': [], 'args_ok': False, 'keep': None, 'restore': None, 'order_ok': False, 'graph_nest0': False,
           'allconst_first': False, 'tail_ok': False, 'allconst_keeps_frame': False, 'noref_placeholder': False}
    try:
        fn = src.func('materializer.py', '_materialize_rml_rule')
    except KeyError:
        failures.append('materializer._materialize_rml_rule not found')
        return res
    params = [a.arg for a in fn.args.args]
    if params != ['rml_rule', 'rml_df', 'fnml_df', 'config', 'data', 'parent_join_references', 'nest_level', 'python_source']:
        failures.append('_materialize_rml_rule: unexpected parameter list ' + str(params))
    defaults = [norm(d) for d in fn.args.defaults]
    if defaults != ['None', 'set()', '0', 'None']:
        failures.append('_materialize_rml_rule: unexpected defaults ' + str(defaults))
    body = strip_doc(fn.body)
    chain = [st for st in body if isinstance(st, ast.If)]
    if not chain:
        failures.append('_materialize_rml_rule: no if-chain')
        return res
    top = chain[0]
    exp_allconst = [f"rml_rule['{p}_map_type'] == RML_CONSTANT" for p in ('subject', 'predicate', 'object', 'graph')]
    res['allconst_first'] = (isinstance(top.test, ast.BoolOp) and isinstance(top.test.op, ast.And)
                             and [norm(v) for v in top.test.values] == exp_allconst)
    if not res['allconst_first']:
        failures.append('first branch is not the all-constant test: ' + norm(top.test)[:200])
    body_texts = [norm(s) for s in top.body]
    terms_stmt = 'data = _materialize_rml_rule_terms(data, rml_rule, fnml_df, config)'
    placeholder_stmt = "data = pd.DataFrame({'placeholder': ['placeholder']})"
    if body_texts == [placeholder_stmt, terms_stmt]:
        res['allconst_keeps_frame'] = False
    elif body_texts == ["if data is None and (not parent_join_references): " + placeholder_stmt +
                        " elif data is None: data = _get_data(config, rml_rule, references, python_source)", terms_stmt]:
        # the repaired shape (fixes/C13_F1.diff): the placeholder frame only when the rule is materialised on its own
        res['allconst_keeps_frame'] = True
    else:
        failures.append('all-constant branch body is neither of the two recognised shapes: ' + ' | '.join(body_texts)[:300])
        res['allconst_first'] = False
    if len(top.orelse) != 1 or not isinstance(top.orelse[0], ast.If):
        failures.append('no elif after the all-constant branch')
        return res
    star = top.orelse[0]
    if norm(star.test) != "rml_rule['subject_map_type'] == RML_QUOTED_TRIPLES_MAP or rml_rule['object_map_type'] == RML_QUOTED_TRIPLES_MAP":
        failures.append('second branch is not the quoted-map test: ' + norm(star.test)[:200])
        return res
    sb = star.body
    ok = len(sb) == 4
    if ok:
        fetch = ['data = _get_data(config, rml_rule, references, python_source)']
        if isinstance(sb[0], ast.If) and norm(sb[0].test) == 'data is None and references':
            # the repaired shape (fix "quoting rule without any reference"): data is fetched only when the rule has references,
            # otherwise the rule works on the one-row placeholder frame
            oe = sb[0].orelse
            ok = ([norm(s) for s in sb[0].body] == fetch and len(oe) == 1 and isinstance(oe[0], ast.If)
                  and norm(oe[0].test) == 'data is None' and not oe[0].orelse
                  and [norm(s) for s in oe[0].body] == [placeholder_stmt])
            res['noref_placeholder'] = bool(ok)
        else:
            ok = (isinstance(sb[0], ast.If) and norm(sb[0].test) == 'data is None' and not sb[0].orelse
                  and [norm(s) for s in sb[0].body] == fetch)
        ok = ok and isinstance(sb[1], ast.If) and is_quoted_test(sb[1].test, 'subject')
        ok = ok and isinstance(sb[2], ast.If) and is_quoted_test(sb[2].test, 'object')
        ok = ok and norm(sb[3]) == 'data = _materialize_rml_rule_terms(data, rml_rule, fnml_df, config)'
    if not ok:
        failures.append('star branch is not: fetch data if None; subject block; object block; terms')
        return res
    res['order_ok'] = True
    s = read_position(sb[1], 'subject', failures, None)
    o = read_position(sb[2], 'object', failures, None)
    res['wrap'] = s['wrap'] + o['wrap']
    res['inc'] = s['inc'] + o['inc']
    res['args_ok'] = s['args_ok'] and o['args_ok'] and len(res['inc']) == 4 and all(i is not None for i in res['inc'])
    res['keep'], res['restore'] = s['keep'], o['restore']
    # tail: triple, graph at nest level 0, drop
    tail = [st for st in body[body.index(top) + 1:]]
    texts = [norm(st) for st in tail if not isinstance(st, ast.If)]
    if texts != ["data['triple'] = data['subject'] + ' ' + data['predicate'] + ' ' + data['object']",
                 "data = data.drop(columns=['subject', 'predicate', 'object'], errors='ignore')", 'return data']:
        failures.append('tail of _materialize_rml_rule changed: ' + ' | '.join(texts)[:300])
    else:
        res['tail_ok'] = True
    gifs = [st for st in tail if isinstance(st, ast.If)]
    if len(gifs) == 1 and norm(gifs[0].test) == 'nest_level == 0 and config.get_output_format() == NQUADS' and not gifs[0].orelse \
            and norm(gifs[0].body[-1]) == "data['triple'] = data['triple'] + ' ' + data['graph']":
        res['graph_nest0'] = True
    else:
        failures.append('graph term is not guarded by `nest_level == 0 and config.get_output_format() == NQUADS`')
    # the statements before the chain
    pre = [norm(st) for st in body[:body.index(top)]]
    exp_pre = ['references = set(_get_references_in_rml_rule(rml_rule, rml_df, fnml_df))',
               "references_subject_join, parent_references_subject_join = get_references_in_join_condition(rml_rule, 'subject_join_conditions')",
               "references_object_join, parent_references_object_join = get_references_in_join_condition(rml_rule, 'object_join_conditions')",
               'references.update(parent_join_references)']
    if pre != exp_pre:
        failures.append('prologue of _materialize_rml_rule changed: ' + ' | '.join(pre)[:300])
        res['args_ok'] = False
    return res


def read_merge(src, failures):
    res = {'prefix': None, 'how': [], 'single_join': False, 'join_suffixed': False}
    try:
        fn = src.func('materializer.py', '_merge_data')
    except KeyError:
        failures.append('materializer._merge_data not found')
        return res
    body = strip_doc(fn.body)
    texts = [norm(st) for st in body]
    m1 = re.fullmatch(r"parent_data = parent_data\.add_prefix\('([^']*)'\)", texts[0]) if texts else None
    m2 = re.fullmatch(r"parent_join_references = \['([^']*)' \+ reference for reference in parent_join_references\]", texts[2]) if len(texts) > 2 else None
    if not (m1 and m2 and m1.group(1) == m2.group(1)
            and texts[1] == 'child_join_references, parent_join_references = get_references_in_join_condition(rml_rule, join_condition)'):
        failures.append('_merge_data: prefix statements changed')
    else:
        res['prefix'] = m1.group(1)
    ifs = [st for st in body if isinstance(st, ast.If)]
    if len(ifs) == 1 and norm(ifs[0].test) == 'len(child_join_references) == 1':
        jb = [norm(s) for s in ifs[0].body]
        eb = [norm(s) for s in ifs[0].orelse]
        mj = re.fullmatch(r"return data\.join\(parent_data, how='([a-z]+)'\)", jb[-1]) if jb else None
        if jb and not mj:
            # the repaired shape (fixes/C13_F2.diff): merge's default suffixes, and the index that was set is dropped
            mj = re.fullmatch(r"return data\.join\(parent_data, how='([a-z]+)', lsuffix='_x', rsuffix='_y'\)\.reset_index\(drop=True\)", jb[-1])
            res['join_suffixed'] = bool(mj)
        mm = re.fullmatch(r"return data\.merge\(parent_data, how='([a-z]+)', left_on=child_join_references, right_on=parent_join_references\)", eb[-1]) if eb else None
        if (jb[:-1] == ['data = data.set_index(child_join_references, drop=False)',
                        'parent_data = parent_data.set_index(parent_join_references, drop=False)'] and mj and mm and len(eb) == 1):
            res['how'] = [mj.group(1), mm.group(1)]
            res['single_join'] = True
        else:
            failures.append('_merge_data: join / merge statements changed')
    else:
        failures.append('_merge_data: no `if len(child_join_references) == 1`')
    return res


def read_asserted_filters(src, failures):
    out = []
    exp = ["asserted_mapping_df = rml_df.loc[rml_df['triples_map_type'] == RML_TRIPLES_MAP_CLASS]",
           "mapping_groups = [group for _, group in asserted_mapping_df.groupby(by='mapping_partition')]"]
    # __init__.materialize_set
    try:
        fn = src.func('__init__.py', 'materialize_set')
        texts = [norm(st) for st in ast.walk(fn) if isinstance(st, ast.Assign)]
        ok = all(e in texts for e in exp) and sum(t.startswith('mapping_groups =') for t in texts) == 1 \
            and sum(t.startswith('asserted_mapping_df =') for t in texts) == 1
        out.append(ok)
        if not ok:
            failures.append('__init__.materialize_set: the asserted filter before grouping changed')
    except KeyError:
        failures.append('__init__.materialize_set not found')
        out.append(False)
    try:
        tree = src.tree('__main__.py')
        texts = [norm(st) for st in ast.walk(tree) if isinstance(st, ast.Assign)]
        ok = all(e in texts for e in exp) and sum(t.startswith('mapping_groups =') for t in texts) == 1 \
            and sum(t.startswith('asserted_mapping_df =') for t in texts) == 1
        out.append(ok)
        if not ok:
            failures.append('__main__: the asserted filter before grouping changed')
    except Exception as e:
        failures.append('__main__.py: ' + repr(e))
        out.append(False)
    return out


def alpha(fn):
    """statement texts of a function with local names (assigned names that are not parameters) abstracted in order of
    first assignment; attribute names, keywords and constants are kept"""
    params = {a.arg for a in fn.args.args}
    order = {}
    for n in ast.walk(fn):
        if isinstance(n, ast.Name) and isinstance(n.ctx, ast.Store) and n.id not in params and n.id not in order:
            order[n.id] = None
    # deterministic numbering: by first occurrence in source order
    names = sorted(order, key=lambda k: min((n.lineno, n.col_offset) for n in ast.walk(fn) if isinstance(n, ast.Name) and n.id == k))
    ren = {k: f'v{i}' for i, k in enumerate(names)}
    import copy
    fn2 = copy.deepcopy(fn)
    for n in ast.walk(fn2):
        if isinstance(n, ast.Name) and n.id in ren:
            n.id = ren[n.id]
    return [norm(st) for st in strip_doc(fn2.body)]


EXPAND_HEAD = [
    "self.rml_df.insert(0, 'id', self.rml_df.reset_index(drop=True).index.astype(str))",
    "self.rml_df['id'] = '#TM' + self.rml_df['id']",
    'v0 = {}',
    'v1 = {}',
    "v2 = dict(zip(self.rml_df['id'], self.rml_df['triples_map_id']))",
    'for v3, v4 in v2.items(): if v4 in v0: v0[v4].append(v3) else: v1[v4] = v3 v0[v4] = [v3]',
    "for v5 in ['subject', 'object']: v6 = self.rml_df.loc[self.rml_df[f'{v5}_map_type'] == RML_QUOTED_TRIPLES_MAP] for v7, v8 in v6.iterrows(): "
    "for v9 in v0[v8[f'{v5}_map_value']]: v8[f'{v5}_map_value'] = v9 self.rml_df = pd.concat([self.rml_df, v8.to_frame().T], ignore_index=True)",
]
# the substitution of the first ids in the value columns: applied to every rule (before 6d1a128) / only where the map type is a
# referencing object map or a quoted triples map
EXPAND_REWRITE_ALL = [
    "self.rml_df['subject_map_value'] = self.rml_df['subject_map_value'].map(v1).fillna(self.rml_df['subject_map_value'])",
    "self.rml_df['object_map_value'] = self.rml_df['object_map_value'].map(v1).fillna(self.rml_df['object_map_value'])",
]
EXPAND_REWRITE_GUARDED = [
    "for v5 in ['subject', 'object']: v10 = self.rml_df[f'{v5}_map_type'].isin([RML_PARENT_TRIPLES_MAP, RML_QUOTED_TRIPLES_MAP]) "
    "self.rml_df.loc[v10, f'{v5}_map_value'] = self.rml_df.loc[v10, f'{v5}_map_value'].map(v1).fillna(self.rml_df.loc[v10, f'{v5}_map_value'])",
]
EXPAND_TAIL = [
    'self.rml_df = self.rml_df.drop_duplicates()',
    "self.rml_df['triples_map_id'] = self.rml_df['id']",
    "self.rml_df = self.rml_df.drop(columns='id')",
]
EXPAND_SHAPE = EXPAND_HEAD + EXPAND_REWRITE_ALL + EXPAND_TAIL
EXPAND_SHAPE_GUARDED = EXPAND_HEAD + EXPAND_REWRITE_GUARDED + EXPAND_TAIL

NORMALIZE_SHAPE = [
    'v0 = len(self.rml_df)',
    'while True: self._expand_rml_star() if v0 == len(self.rml_df): break else: v0 = len(self.rml_df) self._expand_rml_star()',
]


def read_parser(src, failures):
    res = {'expand': False, 'normalize': False, 'termtype': False, 'class': False, 'preprocess_order': False, 'id_prefix': '#TM',
           'rewrite_guarded': False}
    rel = 'mapping/mapping_parser.py'
    try:
        got = alpha(src.func(rel, '_expand_rml_star', cls='MappingParser'))
        m = re.fullmatch(r"self\.rml_df\['id'\] = '([^']*)' \+ self\.rml_df\['id'\]", got[1]) if len(got) > 1 else None
        if m:
            res['id_prefix'] = m.group(1)
            got[1] = got[1].replace("'" + m.group(1) + "'", "'#TM'")
        res['rewrite_guarded'] = got == EXPAND_SHAPE_GUARDED
        res['expand'] = got == EXPAND_SHAPE or res['rewrite_guarded']
        if not res['expand']:
            diff = [g for g, e in zip(got, EXPAND_SHAPE_GUARDED) if g != e][:1] or ['statement count']
            failures.append('_expand_rml_star is not the transcribed statement list; first difference: ' + diff[0][:200])
    except KeyError:
        failures.append('MappingParser._expand_rml_star not found')
    try:
        got = alpha(src.func(rel, '_normalize_rml_star', cls='MappingParser'))
        res['normalize'] = got == NORMALIZE_SHAPE
        if not res['normalize']:
            failures.append('_normalize_rml_star is not the transcribed loop: ' + ' | '.join(got)[:200])
    except KeyError:
        failures.append('MappingParser._normalize_rml_star not found')
    try:
        got = [norm(st) for st in strip_doc(src.func(rel, '_preprocess_mappings', cls='MappingParser').body)]
        exp = ['self.rml_df = self.rml_df.drop_duplicates()', 'self._complete_rml_source_with_config_file_paths()',
               'self._complete_source_types()', 'self._remove_delimiters_from_mappings()', 'self._normalize_rml_star()',
               'self._remove_self_joins_no_condition()']
        res['preprocess_order'] = got == exp
        if not res['preprocess_order']:
            failures.append('_preprocess_mappings: call order changed')
    except KeyError:
        failures.append('MappingParser._preprocess_mappings not found')
    try:
        fn = src.func(rel, '_complete_termtypes')
        body = strip_doc(fn.body)
        q = norm(body[0]) if body else ''
        loop = norm(body[1]) if len(body) > 1 else ''
        exp_q = ("query = f'SELECT DISTINCT ?term_map ?quoted_triples_map WHERE {{ ?term_map <{RML_QUOTED_TRIPLES_MAP}> ?quoted_triples_map . "
                 "OPTIONAL {{ ?term_map <{RML_TERM_TYPE}> ?termtype . }} . FILTER ( !bound(?termtype) ) }}'")
        exp_l = ('for term_map, _ in mapping_graph.query(query): mapping_graph.add((term_map, rdflib.term.URIRef(RML_TERM_TYPE), '
                 'rdflib.term.URIRef(RML_RDF_STAR_TRIPLE)))')
        res['termtype'] = (q == exp_q and loop == exp_l)
        if not res['termtype']:
            failures.append('_complete_termtypes: the RDF-star term type completion (first query) changed')
    except KeyError:
        failures.append('_complete_termtypes not found')
    try:
        fn = src.func(rel, '_complete_triples_map_class')
        body = strip_doc(fn.body)
        adds = [norm(st) for st in ast.walk(fn) if isinstance(st, ast.Expr) and isinstance(st.value, ast.Call)
                and norm(st.value.func) in ('mapping_graph.add', 'mapping_graph.remove')]
        exp = ['mapping_graph.add((triples_map, rdflib.term.URIRef(RDF_TYPE), rdflib.term.URIRef(RML_TRIPLES_MAP_CLASS)))',
               'mapping_graph.add((triples_map, rdflib.term.URIRef(RDF_TYPE), rdflib.term.URIRef(RML_NON_ASSERTED_TRIPLES_MAP_CLASS)))',
               'mapping_graph.remove((triples_map, rdflib.term.URIRef(RDF_TYPE), rdflib.term.URIRef(RML_TRIPLES_MAP_CLASS)))']
        queries = [norm(st.value) for st in body if isinstance(st, ast.Assign) and norm(st.targets[0]) == 'query']
        exp_q = [
            "f'SELECT DISTINCT ?triples_map ?logical_source WHERE {{ ?triples_map <{RML_LOGICAL_SOURCE}> ?logical_source . OPTIONAL {{ ?triples_map a ?triples_map_class . }} . FILTER ( !bound(?triples_map_class) ) }}'",
            "f'SELECT DISTINCT ?triples_map ?logical_source WHERE {{ ?triples_map <{RML_LOGICAL_SOURCE}> ?logical_source . OPTIONAL {{ ?triples_map <{RML_PREDICATE_OBJECT_MAP}> ?pom . }} . FILTER ( !bound(?pom) ) }}'",
            "f'SELECT DISTINCT ?triples_map ?logical_source WHERE {{ ?triples_map <{RML_LOGICAL_SOURCE}> ?logical_source . ?triples_map a <{RML_TRIPLES_MAP_CLASS}> . ?triples_map a <{RML_NON_ASSERTED_TRIPLES_MAP_CLASS}> . }}'"]
        res['class'] = (adds == exp and queries == exp_q)
        if not res['class']:
            failures.append('_complete_triples_map_class: queries or graph updates changed')
    except KeyError:
        failures.append('_complete_triples_map_class not found')
    return res


def generate(src, env, out, summary):
    failures = []
    star = read_star_branch(src, failures)
    merge = read_merge(src, failures)
    filt = read_asserted_filters(src, failures)
    par = read_parser(src, failures)
    wraps = star['wrap']
    opens = {w[2] for w in wraps}
    closes = {w[4] for w in wraps}
    cols_ok = [(w[0], w[1], w[3]) for w in wraps] == [('subject', True, 'parent_triple'), ('subject', False, 'triple'),
                                                       ('object', True, 'parent_triple'), ('object', False, 'triple')]
    sites_agree = len(wraps) == 4 and len(opens) == 1 and len(closes) == 1 and cols_ok
    if wraps and not sites_agree:
        failures.append('the four wrap sites do not agree on the constants / columns: ' + repr(wraps))
    q_open = wraps[0][2] if wraps else ''
    q_close = wraps[0][4] if wraps else ''
    incs = set(star['inc'])
    inc = star['inc'][0] if len(incs) == 1 and star['inc'][0] is not None else 0
    if len(incs) != 1 and star['inc']:
        failures.append('the recursive calls do not agree on the nest-level increment: ' + repr(star['inc']))
    keep, restore = star['keep'], star['restore']
    keep_prefix = keep[0] if keep else ''
    keep_per_level = bool(keep and keep[1])
    restored = bool(keep and restore and keep == restore)
    if keep and restore and keep != restore:
        failures.append(f'keep key {keep} and restore key {restore} differ')
    if env.get('RML_QUOTED_TRIPLES_MAP') != 'http://w3id.org/rml/quotedTriplesMap':
        failures.append('RML_QUOTED_TRIPLES_MAP changed')
    if env.get('RML_TRIPLES_MAP_CLASS') != 'http://w3id.org/rml/TriplesMap':
        failures.append('RML_TRIPLES_MAP_CLASS changed')
    translated = not failures
    text = HEADER + f'''
import MorphKgc.Py.Str

namespace Gen.Star
open Py

/-- the string constants around a quoted triple: `'<< ' + data[...] + ' >>'` (the four wrap sites of `_materialize_rml_rule`) -/
def quoteOpen : Str := {lean_str(q_open)}
def quoteClose : Str := {lean_str(q_close)}
/-- the four sites (subject/object x join/no join) use the same pair and read `parent_triple` / `triple` respectively -/
def quoteSitesAgree : Bool := {lean_bool(sites_agree)}
/-- `nest_level=nest_level + k` in the four recursive calls (all four agree) -/
def nestIncrement : Nat := {inc}
/-- `data['keep_subject' + str(nest_level)] = data['subject']` -/
def keepKeyPrefix : Str := {lean_str(keep_prefix)}
def keepKeyPerLevel : Bool := {lean_bool(keep_per_level)}
/-- `data['subject'] = data['keep_subject' + str(nest_level)]` after the object branch, guarded by the subject being quoted -/
def subjectRestored : Bool := {lean_bool(restored)}
/-- `parent_data.add_prefix('parent_')` and the prefix put on the parent join references -/
def parentPrefix : Str := {lean_str(merge['prefix'] or '')}
/-- `how=` of `DataFrame.join` and `DataFrame.merge` in `_merge_data` -/
def joinHow : List Str := [{', '.join(lean_str(h) for h in merge['how'])}]
/-- `len(child_join_references) == 1` selects `set_index(..., drop=False)` + `join`, anything else `merge` -/
def singleConditionUsesJoin : Bool := {lean_bool(merge['single_join'])}
/-- the one-condition branch passes `lsuffix='_x', rsuffix='_y'` to `DataFrame.join` and drops the index afterwards
    (`false`: `join(parent_data, how=…)` as it is, which raises on overlapping names and leaves the key as index name) -/
def joinSuffixed : Bool := {lean_bool(merge['join_suffixed'])}
/-- an all-constant rule keeps the frame that was passed down (or fetches its own data when join references were passed) and
    uses the one-row placeholder frame only when materialised on its own (`false`: always the placeholder frame) -/
def allConstKeepsFrame : Bool := {lean_bool(star['allconst_keeps_frame'])}
/-- the quoted branch of `_materialize_rml_rule` fetches its data only when the rule has references and works on the one-row
    placeholder frame otherwise (`false`: it always calls `_get_data`, which returns no row for an empty reference set) -/
def noRefPlaceholder : Bool := {lean_bool(star['noref_placeholder'])}
/-- the graph term is appended iff `nest_level == 0 and config.get_output_format() == NQUADS` -/
def graphAtNestZeroOnly : Bool := {lean_bool(star['graph_nest0'])}
/-- the recursion without join condition receives `data=data`; the recursion with join condition receives
    `parent_join_references=` the parent side of the same position's join conditions and no data -/
def recursionArguments : Bool := {lean_bool(star['args_ok'])}
/-- all-constant test first, then the quoted-map branch: subject block, object block, `_materialize_rml_rule_terms`; then the triple -/
def branchOrder : Bool := {lean_bool(star['order_ok'] and star['allconst_first'] and star['tail_ok'])}
/-- `rml_df.loc[rml_df['triples_map_type'] == RML_TRIPLES_MAP_CLASS]` before grouping, in `__init__.materialize_set` and `__main__` -/
def assertedFilter : List Bool := [{', '.join(lean_bool(b) for b in filt)}]
/-- `_expand_rml_star`: ids are `'#TM' + position`, every quoted reference gets one appended rule per id of
    `tm_to_id_list_dict[...]` (the whole list), subject position before object position -/
def idPrefix : Str := {lean_str(par['id_prefix'])}
def expandWholeList : Bool := {lean_bool(par['expand'])}
/-- the first-id substitution of the value columns is applied only where the map type is `rml:parentTriplesMap` or
    `rml:quotedTriplesMap` (`false`: to every rule, whatever its map types) -/
def expandRewriteGuarded : Bool := {lean_bool(par['rewrite_guarded'])}
/-- `_normalize_rml_star`: expand until the number of rules is unchanged; called between delimiter removal and self-join elimination -/
def normalizeLoop : Bool := {lean_bool(par['normalize'] and par['preprocess_order'])}
/-- `_complete_termtypes`: term maps with `rml:quotedTriplesMap` and no term type get `rml:RDFstarTriple`;
    `_complete_triples_map_class`: untyped maps become `rml:TriplesMap`, `rml:NonAssertedTriplesMap` wins over it -/
def termtypeCompletion : Bool := {lean_bool(par['termtype'])}
def classCompletion : Bool := {lean_bool(par['class'])}
/-- every shape above was recognised -/
def translated : Bool := {lean_bool(translated)}

end Gen.Star
'''
    write_if_changed(os.path.join(out, 'Star.lean'), text)
    summary['star'] = {'wrap_sites': [list(w) for w in wraps], 'nest_increments': star['inc'], 'keep': keep, 'restore': restore,
                       'merge': merge, 'asserted_filter': filt, 'parser': par, 'failures': failures}
