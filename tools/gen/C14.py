"""C14: RML-FNML evaluation (fnml/fnml_executer.py, fnml/built_in_functions.py, utils.py, materializer.py) -> Gen/Fnml.lean

Generated from the AST of the working tree (never from a stored copy):
  * `executeSteps`: the statements of `execute_fnml`, each classified by a pattern with metavariables (local names are
    free, statement order is kept as found); `Model.Fnml.execKindOf` decides in Lean whether the order is one of the
    recognised ones and which of NULL removal / `explode` comes first;
  * `siteShape`: default `termtype` of `_materialize_fnml_execution`, the term type the language-map call ends up with, the
    `.strip()` of the IRI branch, whether a column alias reaches the function site; the keyword arguments of every call site;
  * `fnmlTemplateRecognised`, `refsInExecutionRecognised`, `registriesRecognised` (the `@bif` / `@udf` decorators, `load_udfs`);
  * `builtins`: the registry (`bif_dict` of the tree under translation: function id, Python name, parameter name -> IRI) with
    the shape of every body.  A body that loads a name bound nowhere gets the shape `.nameError`.
Anything not recognised is a failure in summary['fnml'] (never guessed).
"""
import ast
import builtins as _builtins
import importlib
import os

from extract import HEADER, lean_str, write_if_changed

EXE = 'fnml/fnml_executer.py'
BIF = 'fnml/built_in_functions.py'


def _u(n):
    return ' '.join(ast.unparse(n).split())


# ----------------------------------------------------------------------------------------------------
# pattern matching with metavariables
# ----------------------------------------------------------------------------------------------------

def match(pat, node, env, meta):
    """structural equality of two ASTs; a Name / arg whose identifier satisfies `meta` is a metavariable bound consistently"""
    if isinstance(pat, ast.Name) and meta(pat.id):
        if not isinstance(node, ast.Name):
            return False
        if pat.id in env:
            return env[pat.id] == node.id
        env[pat.id] = node.id
        return True
    if isinstance(pat, ast.arg) and meta(pat.arg):
        if not isinstance(node, ast.arg):
            return False
        if pat.arg in env:
            return env[pat.arg] == node.arg
        env[pat.arg] = node.arg
        return True
    if type(pat) is not type(node):
        return False
    if isinstance(pat, ast.AST):
        for f in pat._fields:
            if f in ('ctx', 'type_comment', 'kind'):
                continue
            if not match(getattr(pat, f, None), getattr(node, f, None), env, meta):
                return False
        return True
    if isinstance(pat, list):
        return len(pat) == len(node) and all(match(a, b, env, meta) for a, b in zip(pat, node))
    return pat == node


def strip_doc(body):
    return [s for s in body if not (isinstance(s, ast.Expr) and isinstance(s.value, ast.Constant) and isinstance(s.value.value, str))
            and not isinstance(s, ast.Pass)]


def fn_meta(fn_pat):
    """metavariables of a whole-function pattern: its parameters and every name it binds"""
    names = {a.arg for a in fn_pat.args.args + fn_pat.args.kwonlyargs}
    for n in ast.walk(fn_pat):
        if isinstance(n, ast.Name) and isinstance(n.ctx, ast.Store):
            names.add(n.id)
    return names


def match_function(pattern_src, fn):
    pat = ast.parse(pattern_src).body[0]
    names = fn_meta(pat)
    env = {}
    meta = lambda s: s in names
    if not match(pat.args, fn.args, env, meta):
        return False
    return match(strip_doc(pat.body), strip_doc(fn.body), env, meta)


# ----------------------------------------------------------------------------------------------------
# execute_fnml
# ----------------------------------------------------------------------------------------------------

STEP_PATTERNS = [
    ('lookupExecution', 'V_rule_df = get_fnml_execution(V_fnml_df, V_exec)'),
    ('functionId', "V_fid = V_rule_df.iloc[0]['function_map_value']"),
    ('innerExecutions', '''
for V_i, V_er in V_rule_df.iterrows():
    if V_er['value_map_type'] == RML_EXECUTION:
        V_data = execute_fnml(V_data, V_fnml_df, V_er['value_map_value'], V_config)
'''),
    ('paramTypes', "V_ptype = dict(zip(V_rule_df['parameter_map_value'], V_rule_df['value_map_type']))"),
    ('paramValues', "V_pval = dict(zip(V_rule_df['parameter_map_value'], V_rule_df['value_map_value']))"),
    ('resolveFunction', '''
if V_fid in bif_dict:
    V_function = bif_dict[V_fid]['function']
    V_decparams = bif_dict[V_fid]['parameters']
else:
    V_udf_dict = load_udfs(V_config)
    V_function = V_udf_dict[V_fid]['function']
    V_decparams = V_udf_dict[V_fid]['parameters']
'''),
    ('initParams', 'V_fparams = {}'),
    ('bindParams', '''
for V_k, V_v in V_decparams.items():
    if V_v in V_ptype:
        if V_ptype[V_v] == RML_CONSTANT:
            V_fparams[V_k] = [V_pval[V_v]] * len(V_data)
        elif V_ptype[V_v] == RML_TEMPLATE:
            V_ftd = _materialize_fnml_template(V_data, V_pval[V_v])
            V_fparams[V_k] = list(V_ftd)
        else:
            V_fparams[V_k] = list(V_data[V_pval[V_v]])
'''),
    ('initResults', 'V_res = []'),
    ('rowwiseCall', '''
for V_i2 in range(len(V_data)):
    V_eparams = {}
    for V_k2, V_v2 in V_fparams.items():
        V_eparams[V_k2] = V_v2[V_i2]
    V_res.append(V_function(**V_eparams))
'''),
    ('assignResult', 'V_data[V_exec] = V_res'),
    ('assignResult', 'V_data[V_exec] = pd.Series(V_res, index=V_data.index, dtype=object)'),
    ('removeNulls', 'V_data = remove_null_values_from_dataframe(V_data, V_config, V_exec, column=V_exec)'),
    ('explode', 'V_data = V_data.explode(V_exec)'),
    ('ret', 'return V_data'),
]


def execute_steps(src, failures, info):
    try:
        fn = src.func(EXE, 'execute_fnml')
    except KeyError:
        failures.append('execute_fnml not found')
        return []
    meta = lambda s: s.startswith('V_')
    if len(fn.args.args) != 4 or fn.args.defaults or fn.args.vararg or fn.args.kwarg:
        failures.append('execute_fnml: unexpected parameters ' + _u(fn.args))
        return []
    p = [a.arg for a in fn.args.args]
    env = {'V_data': p[0], 'V_fnml_df': p[1], 'V_exec': p[2], 'V_config': p[3]}
    pats = [(name, ast.parse(text.strip()).body[0], text.strip()) for name, text in STEP_PATTERNS]
    steps = []
    for st in strip_doc(fn.body):
        found = None
        for name, pat, text in pats:
            e2 = dict(env)
            if match(pat, st, e2, meta):
                found, env = name, e2
                if name == 'assignResult':
                    info['assign'] = 'objectSeries' if 'pd.Series' in text else 'plainList'
                break
        if found is None:
            failures.append('execute_fnml: unrecognised statement: ' + _u(st)[:200])
            steps.append('unrecognised')
        else:
            steps.append(found)
    # the constants the patterns mention must be the RML ones
    return steps


# ----------------------------------------------------------------------------------------------------
# whole-function patterns
# ----------------------------------------------------------------------------------------------------

FNML_TEMPLATE = r'''
def _materialize_fnml_template(data, template):
    references = get_references_in_template(template)
    template = template.replace('\\{', '{').replace('\\}', '}')
    data['aux_fnml_template_data'] = ''
    for reference in references:
        data['reference_results'] = data[reference]
        splitted_template = template.split('{' + reference + '}')
        data['aux_fnml_template_data'] = data['aux_fnml_template_data'] + splitted_template[0] + data['reference_results']
        template = str('{' + reference + '}').join(splitted_template[1:])
    if template:
        data['aux_fnml_template_data'] = data['aux_fnml_template_data'] + template
    return data['aux_fnml_template_data']
'''

REFS_IN_EXECUTION = '''
def get_references_in_fnml_execution(fnml_df, execution):
    execution_rule_df = fnml_df[fnml_df['function_execution'] == execution]
    references = []
    for i, parameter in execution_rule_df.iterrows():
        if parameter['value_map_type'] == RML_TEMPLATE:
            references.extend(get_references_in_template(parameter['value_map_value']))
        elif parameter['value_map_type'] == RML_REFERENCE:
            references.extend([parameter['value_map_value']])
        elif parameter['value_map_type'] == RML_EXECUTION:
            references.extend(get_references_in_fnml_execution(fnml_df, parameter['value_map_value']))
    return references
'''

GET_EXECUTION = '''
def get_fnml_execution(fnml_df, execution_id):
    return fnml_df[fnml_df['function_execution'] == execution_id]
'''

DECORATOR = '''
def DEC(fun_id, **params):
    def wrapper(funct):
        DICT[fun_id] = {}
        DICT[fun_id]['function'] = funct
        DICT[fun_id]['parameters'] = params
        return funct
    return wrapper
'''

LOAD_UDFS = '''
def load_udfs(config):
    if config.get_udfs():
        import sys
        from types import ModuleType
        with open(config.get_udfs(), 'r') as f:
            udfs_code = f.read()
        udfs_code = f'{UDF_DICT_DECORATOR_CODE}{udfs_code}'
        udf_mod = ModuleType('udfs')
        sys.modules['udfs'] = udf_mod
        exec(udfs_code, udf_mod.__dict__)
        return udf_mod.udf_dict
    else:
        return {}
'''


def whole(src, rel, name, pattern, failures):
    try:
        fn = src.func(rel, name)
    except KeyError:
        failures.append(f'{name} not found in {rel}')
        return False
    ok = match_function(pattern, fn)
    if not ok:
        failures.append(f'{rel}:{name}: body not recognised')
    return ok


def registries(src, failures):
    ok = whole(src, BIF, 'bif', DECORATOR.replace('DEC', 'bif').replace('DICT', 'bif_dict'), failures)
    ok = whole(src, EXE, 'load_udfs', LOAD_UDFS, failures) and ok
    # the decorator text that is prepended to the user's file
    code = None
    for n in src.tree(EXE).body:
        if isinstance(n, ast.Assign) and len(n.targets) == 1 and isinstance(n.targets[0], ast.Name) \
                and n.targets[0].id == 'UDF_DICT_DECORATOR_CODE' and isinstance(n.value, ast.Constant):
            code = n.value.value
    if not isinstance(code, str):
        failures.append('UDF_DICT_DECORATOR_CODE not found')
        return False
    try:
        mod = ast.parse(code)
    except SyntaxError:
        failures.append('UDF_DICT_DECORATOR_CODE does not parse')
        return False
    body = strip_doc(mod.body)
    if not (len(body) == 2 and _u(body[0]) == 'udf_dict = {}' and isinstance(body[1], ast.FunctionDef) and body[1].name == 'udf'
            and match_function(DECORATOR.replace('DEC', 'udf').replace('DICT', 'udf_dict'), body[1])):
        failures.append('UDF_DICT_DECORATOR_CODE: decorator not recognised')
        return False
    return ok


# ----------------------------------------------------------------------------------------------------
# _materialize_fnml_execution and its call sites
# ----------------------------------------------------------------------------------------------------

def site_shape(src, env, failures):
    shape = {'default': None, 'lang': None, 'iriStrip': False, 'aliasAware': False, 'rawElse': False, 'calls': {}}
    try:
        fn = src.func('materializer.py', '_materialize_fnml_execution')
    except KeyError:
        failures.append('_materialize_fnml_execution not found')
        return shape
    params = [a.arg for a in fn.args.args]
    if params[:5] != ['results_df', 'fnml_execution', 'fnml_df', 'config', 'position']:
        failures.append('_materialize_fnml_execution: unexpected parameters ' + _u(fn.args))
        return shape
    defaults = dict(zip(params[len(params) - len(fn.args.defaults):], fn.args.defaults))
    if set(params[5:]) - {'termtype', 'datatype'}:
        failures.append('_materialize_fnml_execution: extra parameters ' + repr(params[5:]) + ' (a column alias at the function site is not modelled)')
        shape['aliasAware'] = 'columns_alias' in params
    tt_names = {'RML_LITERAL': 'literal', 'RML_IRI': 'iri', 'RML_BLANK_NODE': 'bnode'}
    d = defaults.get('termtype')
    if isinstance(d, ast.Name) and d.id in tt_names:
        shape['default'] = tt_names[d.id]
    elif isinstance(d, ast.Constant) and d.value == '':
        shape['default'] = ''
    else:
        failures.append('_materialize_fnml_execution: default termtype not recognised')
    body = strip_doc(fn.body)
    if not body or _u(body[0]) != 'results_df = execute_fnml(results_df, fnml_df, fnml_execution, config)':
        failures.append('_materialize_fnml_execution: the first statement is not the call of execute_fnml on the frame')
    # the termtype ladder
    ladder = [s for s in body if isinstance(s, ast.If) and _u(s.test).startswith('termtype.strip() ==')]
    if len(ladder) != 1:
        failures.append('_materialize_fnml_execution: expected one termtype ladder')
        return shape
    node, seen = ladder[0], {}
    while True:
        t = _u(node.test)
        key = {'termtype.strip() == RML_LITERAL': 'literal', 'termtype.strip() == RML_IRI': 'iri',
               'termtype.strip() == RML_BLANK_NODE': 'bnode'}.get(t)
        if key is None:
            failures.append('_materialize_fnml_execution: unrecognised test ' + t)
        else:
            seen[key] = strip_doc(node.body)
        if len(node.orelse) == 1 and isinstance(node.orelse[0], ast.If):
            node = node.orelse[0]
            continue
        rest = strip_doc(node.orelse)
        if rest:
            if len(rest) == 1 and _u(rest[0]) == 'results_df[position] = results_df[fnml_execution]':
                shape['rawElse'] = True
            else:
                failures.append('_materialize_fnml_execution: unrecognised else branch')
        break
    if set(seen) != {'literal', 'iri', 'bnode'}:
        failures.append('_materialize_fnml_execution: termtype branches ' + repr(sorted(seen)))
    else:
        if not seen['literal'] or _u(seen['literal'][-1]) != "results_df[position] = '\"' + results_df[fnml_execution] + '\"'":
            failures.append('_materialize_fnml_execution: literal delimiters not recognised')
        iri = [_u(s) for s in seen['iri']]
        if iri == ['results_df[fnml_execution] = results_df[fnml_execution].apply(lambda x: x.strip())',
                   "results_df[position] = '<' + results_df[fnml_execution] + '>'"]:
            shape['iriStrip'] = True
        elif iri == ["results_df[position] = '<' + results_df[fnml_execution] + '>'"]:
            shape['iriStrip'] = False
        else:
            failures.append('_materialize_fnml_execution: IRI branch not recognised')
        if [_u(s) for s in seen['bnode']] != ["results_df[position] = '_:' + results_df[fnml_execution]"]:
            failures.append('_materialize_fnml_execution: blank node branch not recognised')
    # call sites
    expected = {
        'subject': {"termtype=rml_rule['subject_termtype']"},
        'predicate': {'termtype=RML_IRI'},
        'object': {"termtype=rml_rule['object_termtype']", "datatype=rml_rule['lang_datatype_map_value']"},
        'datatype': {'termtype=RML_IRI'},
        'graph': {'termtype=RML_IRI'},
    }
    calls = {}
    for fname in ('_materialize_rml_rule_terms', '_materialize_rml_rule'):
        try:
            f2 = src.func('materializer.py', fname)
        except KeyError:
            failures.append(f'{fname} not found')
            continue

        def visit(stmts, ctxs):
            for st in stmts:
                if isinstance(st, ast.If):
                    visit(st.body, ctxs + [_u(st.test)])
                    visit(st.orelse, ctxs)
                    continue
                for field in ('body', 'orelse', 'finalbody'):
                    sub = getattr(st, field, None)
                    if isinstance(sub, list):
                        visit(sub, ctxs)
                for c in ast.walk(st) if not isinstance(st, (ast.For, ast.While, ast.With, ast.Try)) else []:
                    if isinstance(c, ast.Call) and isinstance(c.func, ast.Name) and c.func.id == '_materialize_fnml_execution':
                        pos = c.args[4].value if len(c.args) == 5 and isinstance(c.args[4], ast.Constant) else None
                        if pos == 'lang_datatype':
                            pos = 'language' if any('RML_LANGUAGE_MAP' in x for x in ctxs) else ('datatype' if any('RML_DATATYPE_MAP' in x for x in ctxs) else None)
                        kws = {_u(k) for k in c.keywords}
                        posargs = [_u(a) for a in c.args[:4]]
                        if pos is None or len(c.args) != 5 or posargs[2:] != ['fnml_df', 'config'] or pos in calls:
                            failures.append('call of _materialize_fnml_execution not recognised: ' + _u(c)[:160])
                        else:
                            calls[pos] = kws
        visit(f2.body, [])
    shape['calls'] = {k: sorted(v) for k, v in calls.items()}
    for pos, kws in expected.items():
        if calls.get(pos) != kws:
            failures.append(f'call site {pos}: keyword arguments {sorted(calls.get(pos, ["<missing>"]))}, expected {sorted(kws)}')
    lang = calls.get('language')
    if lang is None:
        failures.append('call site language map: missing')
    elif lang == set():
        shape['lang'] = shape['default']
    elif lang == {"termtype=''"} and shape['rawElse']:
        shape['lang'] = ''
    else:
        failures.append('call site language map: keyword arguments ' + repr(sorted(lang)))
    return shape


# ----------------------------------------------------------------------------------------------------
# built-ins
# ----------------------------------------------------------------------------------------------------

BODIES = {
    'escapeHtml': ['''
def f(string, mode):
    if mode == 'html':
        import html
        return html.escape(string)
    else:
        pass
'''],
    'indexOf': ['def f(string, substring):\n    return string.index(substring)'],
    'toStr': ['def f(string):\n    return str(string)'],
    'strptimeDate': ['def f(string, format_code):\n    from datetime import datetime\n    return str(datetime.strptime(string, format_code).date())'],
    'splitRepr': ['def f(string, separator):\n    return str(string.split(separator))'],
    'arrayGet': ['''
def f(string_list, start, end=None):
    try:
        string_list = eval(string_list)
    except:
        pass
    start = int(start)
    if end:
        end = int(end)
        return str(string_list[start:end])
    else:
        return string_list[start]
'''],
    'arraySlice': ['''
def f(string_list, start, end=None):
    try:
        string_list = eval(string_list)
    except:
        pass
    start = int(start)
    if end:
        end = int(end)
        return str(string_list[start:end])
    else:
        return str(string_list[start:])
'''],
    'replaceAll': ['def f(string, old_substring, new_substring):\n    return string.replace(old_substring, new_substring)'],
    'lower': ['def f(string):\n    return string.lower()'],
    'upper': ['def f(string):\n    return string.upper()'],
    'title': ['def f(string):\n    return string.title()'],
    'reverse': ['def f(string):\n    return string[::-1]'],
    'strip': ['def f(string):\n    return string.strip()'],
    'ifEval': ['''
def f(boolean_expression, value_true, value_false=None):
    if eval(boolean_expression):
        return value_true
    else:
        return value_false
'''],
    'roundNumber': ['''
def f(number):
    if ',' in number and '.' in number:
        number = number.replace(',', '')
    elif ',' in number:
        number = number.replace(',', '.')
    return str(round(float(number)))
'''],
    'uuid': ['def f():\n    from uuid import uuid4\n    return str(uuid4())'],
    'splitList': ['def f(string, separator):\n    return string.split(separator)'],
    'concat3': ["def f(string1, string2, separator=''):\n    return f'{string1}{separator}{string2}'"],
    'upperUrl false': ['''
def f(url):
    from falcon.uri import encode_value
    url_lower = url.lower()
    if url_lower.startswith('https://'):
        return f'https://{encode_value(url[:8].upper())}'
    elif url_lower.startswith('http://'):
        return f'http://{encode_value(url[:7].upper())}'
    return f'http://{encode_value(url.upper())}'
'''],
    'upperUrl true': ['''
def f(url):
    from falcon.uri import encode_value
    url_lower = url.lower()
    if url_lower.startswith('https://'):
        return f'https://{encode_value(url[8:].upper())}'
    elif url_lower.startswith('http://'):
        return f'http://{encode_value(url[7:].upper())}'
    return f'http://{encode_value(url.upper())}'
'''],
    'sha256Hex': ['def f(string):\n    from hashlib import sha256\n    return sha256(string.encode("UTF-8")).hexdigest()',
                  'def f(string):\n    return sha256(string.encode("UTF-8")).hexdigest()'],
    'hashIri': ['''def f(string):\n    from hashlib import sha256\n    return f'http://example.com/ns#{sha256(string.encode("UTF-8")).hexdigest()}\'''',
                '''def f(string):\n    return f'http://example.com/ns#{sha256(string.encode("UTF-8")).hexdigest()}\''''],
}

IFCAST = '''
def f(string, value_true, value_false=None):
    if string.lower() in FALSY:
        return value_false
    else:
        return value_true
'''


def unbound_names(fn, module_names):
    bound = {a.arg for a in fn.args.args + fn.args.kwonlyargs}
    for n in ast.walk(fn):
        if isinstance(n, ast.Name) and isinstance(n.ctx, ast.Store):
            bound.add(n.id)
        elif isinstance(n, (ast.Import, ast.ImportFrom)):
            for a in n.names:
                bound.add((a.asname or a.name).split('.')[0])
        elif isinstance(n, ast.ExceptHandler) and n.name:
            bound.add(n.name)
        elif isinstance(n, (ast.FunctionDef, ast.ClassDef)) and n is not fn:
            bound.add(n.name)
        elif isinstance(n, ast.Lambda):
            bound.update(a.arg for a in n.args.args)
        elif isinstance(n, ast.comprehension):
            for t in ast.walk(n.target):
                if isinstance(t, ast.Name):
                    bound.add(t.id)
    out = []
    for n in ast.walk(fn):
        if isinstance(n, ast.Name) and isinstance(n.ctx, ast.Load) and n.id not in bound and n.id not in module_names \
                and not hasattr(_builtins, n.id) and n.id not in out:
            out.append(n.id)
    return out


def module_level_names(tree):
    names = set()
    for n in tree.body:
        if isinstance(n, (ast.FunctionDef, ast.ClassDef)):
            names.add(n.name)
        elif isinstance(n, (ast.Import, ast.ImportFrom)):
            for a in n.names:
                names.add((a.asname or a.name).split('.')[0])
        elif isinstance(n, (ast.Assign, ast.AnnAssign, ast.AugAssign)):
            for t in ast.walk(n):
                if isinstance(t, ast.Name) and isinstance(t.ctx, ast.Store):
                    names.add(t.id)
    return names


def inline_result_local(body):
    """`…; x = e; return x`  ->  `…; return e` (a local that only names the result)"""
    body = strip_doc(body)
    if len(body) >= 2 and isinstance(body[-1], ast.Return) and isinstance(body[-1].value, ast.Name) \
            and isinstance(body[-2], ast.Assign) and len(body[-2].targets) == 1 and isinstance(body[-2].targets[0], ast.Name) \
            and body[-2].targets[0].id == body[-1].value.id \
            and sum(1 for st in body[:-2] for n in ast.walk(st) if isinstance(n, ast.Name) and n.id == body[-1].value.id) == 0:
        return body[:-2] + [ast.Return(value=body[-2].value)]
    return body


def classify_body(fn):
    """-> (lean term, json) or (None, reason)"""
    bare = ast.FunctionDef(name='f', args=fn.args, body=inline_result_local(fn.body), decorator_list=[], returns=None, type_comment=None,
                           type_params=[])
    for shape, pats in BODIES.items():
        for p in pats:
            if match_function(p, bare):
                parts = shape.split()
                return ('.' + parts[0] + (' ' + parts[1] if len(parts) > 1 else '')), {'shape': shape}
    # controls_if_cast: the list of falsy spellings is data
    body = strip_doc(fn.body)
    if len(body) == 1 and isinstance(body[0], ast.If) and isinstance(body[0].test, ast.Compare) and len(body[0].test.comparators) == 1 \
            and isinstance(body[0].test.comparators[0], (ast.List, ast.Tuple, ast.Set)):
        elts = body[0].test.comparators[0].elts
        if all(isinstance(e, ast.Constant) and isinstance(e.value, str) for e in elts):
            falsy = [e.value for e in elts]
            pat = IFCAST.replace('FALSY', repr(falsy))
            if match_function(pat, bare):
                return '.ifCast [' + ', '.join(lean_str(x) for x in falsy) + ']', {'shape': 'ifCast', 'falsy': falsy}
    return None, 'unrecognised body: ' + _u(fn)[:200]


def read_builtins(src, repo, failures):
    out = []
    try:
        mod = importlib.import_module('morph_kgc.fnml.built_in_functions')
        if not os.path.abspath(mod.__file__).startswith(os.path.abspath(os.path.join(repo, 'src'))):
            failures.append(f'built_in_functions imported from {mod.__file__}')
            return out
        reg = mod.bif_dict
    except Exception as e:
        failures.append('built_in_functions does not import: ' + repr(e))
        return out
    tree = src.tree(BIF)
    modnames = module_level_names(tree)
    defs = {n.name: n for n in tree.body if isinstance(n, ast.FunctionDef)}
    for fid, meta in reg.items():
        fo = meta.get('function')
        name = getattr(fo, '__name__', None)
        params = meta.get('parameters')
        if not isinstance(fid, str) or name not in defs or not isinstance(params, dict) \
                or not all(isinstance(k, str) and isinstance(v, str) for k, v in params.items()):
            failures.append(f'registry entry {fid!r} not understood')
            continue
        fn = defs[name]
        argnames = [a.arg for a in fn.args.args]
        if fn.args.vararg or fn.args.kwarg or fn.args.kwonlyargs or fn.args.posonlyargs:
            failures.append(f'{name}: unsupported parameter kinds')
        if not set(params) <= set(argnames):
            failures.append(f'{name}: decorator names {sorted(params)} are not parameters {argnames}')
        ub = unbound_names(fn, modnames)
        if ub:
            lean, js = f'.nameError {lean_str(ub[0])}', {'shape': 'nameError', 'unbound': ub[0]}
        else:
            lean, js = classify_body(fn)
            if lean is None:
                failures.append(f'{name}: {js}')
                lean, js = '.unrecognised', {'shape': 'unrecognised'}
        out.append({'funId': fid, 'name': name, 'params': [[k, v] for k, v in params.items()], 'argNames': argnames, 'lean': lean, **js})
    return out


# ----------------------------------------------------------------------------------------------------

def generate(src, env, out, summary):
    failures = []
    info = {'assign': None}
    steps = execute_steps(src, failures, info)
    if info['assign'] is None:
        failures.append('execute_fnml: assignment of the result column not found')
    for k in ('RML_EXECUTION', 'RML_TEMPLATE', 'RML_CONSTANT', 'RML_REFERENCE'):
        if env.get(k) != 'http://w3id.org/rml/' + {'RML_EXECUTION': 'functionExecution', 'RML_TEMPLATE': 'template',
                                                  'RML_CONSTANT': 'constant', 'RML_REFERENCE': 'reference'}[k]:
            failures.append(f'constant {k} is {env.get(k)!r}')
    tpl_ok = whole(src, EXE, '_materialize_fnml_template', FNML_TEMPLATE, failures)
    refs_ok = whole(src, 'utils.py', 'get_references_in_fnml_execution', REFS_IN_EXECUTION, failures)
    refs_ok = whole(src, 'utils.py', 'get_fnml_execution', GET_EXECUTION, failures) and refs_ok
    reg_ok = registries(src, failures)
    shape = site_shape(src, env, failures)
    bis = read_builtins(src, src.repo, failures)

    tt = lambda v: {'literal': 'some .literal', 'iri': 'some .iri', 'bnode': 'some .bnode', '': 'none', None: 'none'}[v]
    lines = [HEADER, 'import MorphKgc.Model.FnmlBuiltins', '', 'namespace Gen', 'open Py Model Model.Fnml', '',
             '/-- the statements of `fnml_executer.execute_fnml`, in source order -/',
             'def executeSteps : List ExecStep := [' + ', '.join('.' + s for s in steps) + ']', '',
             '/-- how the result column is assigned: a plain Python list (dtype inferred: float64 for an EMPTY frame) or an object Series -/',
             f'def assignShape : AssignShape := .{info["assign"] or "plainList"}', '',
             '/-- `materializer._materialize_fnml_execution` and its call sites -/',
             'def siteShape : SiteShape :=',
             f'  {{ defaultTermtype := {tt(shape["default"])}, langTermtype := {tt(shape["lang"])}, '
             f'iriStrip := {"true" if shape["iriStrip"] else "false"}, rawElse := {"true" if shape["rawElse"] else "false"}, '
             f'aliasAware := {"true" if shape["aliasAware"] else "false"} }}', '',
             f'def fnmlTemplateRecognised : Bool := {"true" if tpl_ok else "false"}',
             f'def refsInExecutionRecognised : Bool := {"true" if refs_ok else "false"}',
             f'def registriesRecognised : Bool := {"true" if reg_ok else "false"}', '',
             '/-! `bif_dict` of built_in_functions.py: one definition per registered function id (named after the fragment of the id), with the',
             '    Python name, parameter name ↦ IRI, the positional parameters of the `def` and the shape of the body -/', '']
    import re as _re
    names = []
    for b in bis:
        frag = _re.sub(r'[^A-Za-z0-9_]', '_', _re.split(r'[#/]', b['funId'])[-1])
        nm = 'bif_' + frag
        if nm in names:
            failures.append(f'two registered ids end in {frag}')
            continue
        names.append(nm)
        b['gen'] = nm
        ps = ', '.join(f'({lean_str(k)}, {lean_str(v)})' for k, v in b['params'])
        an = ', '.join(lean_str(a) for a in b['argNames'])
        lines += [f'def {nm} : Builtin :=',
                  f'  {{ funId := {lean_str(b["funId"])}, name := {lean_str(b["name"])},',
                  f'    params := [{ps}],', f'    argNames := [{an}], shape := {b["lean"]} }}', '']
    lines += ['def builtins : List Builtin := [' + ', '.join(names) + ']', '',
              f'def fnmlTranslated : Bool := {"true" if not failures else "false"}', '', 'end Gen', '']
    write_if_changed(os.path.join(out, 'Fnml.lean'), '\n'.join(lines))
    summary['fnml'] = {'steps': steps, 'assign': info['assign'], 'site': shape, 'builtins': bis, 'failures': failures}
