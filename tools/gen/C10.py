"""C10: how every source kind is read (data_source/*.py, materializer._get_data, mapping_parser._complete_source_types /
_preprocess_mappings / _complete_rml_source_with_config_file_paths, constants.py) -> Gen/Source.lean

Generated (from the AST of the working tree, never from a stored copy):
  * `csvDelimiter`, `csvCall`, `csvFallbackCall`: the delimiter choice and the keyword arguments of the two `pd.read_table` calls;
  * `excelCall`, `odsCall`, `parquetCall`, `featherCall`, `orcCall`, `stataCall`, `sasCall`, `spssCall`, `viewIsDuckdbQuery`;
  * `fileDispatch`: the `if / elif` chain of `get_file_data` with the VALUES of the constants; `fileSourceTypes`, `inMemoryTypes`, `rdbType`;
  * `getDataDispatch`: which reader family `materializer._get_data` calls for which source type, and that `_preprocess_data` follows;
  * `sourceTypeSteps`: the decision chain of `_complete_source_types`; `rmlNamespace`;
  * `preprocessMappingSteps`: the call order of `_preprocess_mappings` (file_path substitution before source typing);
  * `dialectStyles`, `dialectDefault`: `_replace_query_enclosing_characters`;
  * `frameStrip`: the characters a DataFrame source loses (`x.replace('"', '')`), empty when the loop is absent;
  * `readerBodiesRecognised`: the statement lists of `_read_json`, `_read_xml`, `_read_inmemory_json`, `get_ram_data`, `get_sql_data`,
    `_complete_rml_source_with_config_file_paths` are the ones the reader models were written for (modulo the variants C06 reads).
Anything not recognised is a failure in summary['source'] (never guessed).
"""
import ast
import os

from extract import HEADER, lean_str, write_if_changed
from gen.C06 import _u, _is_name, _assign_to, XML_LOOP


def _body(fn):
    b = list(fn.body)
    if b and isinstance(b[0], ast.Expr) and isinstance(b[0].value, ast.Constant) and isinstance(b[0].value.value, str):
        b = b[1:]
    return b


def _b(x):
    return 'true' if x else 'false'


def _strs(xs):
    return '[' + ', '.join(lean_str(x) for x in xs) + ']'


LSV = "rml_rule['logical_source_value']"


# ----------------------------------------------------------------------------------------------------
# pandas calls
# ----------------------------------------------------------------------------------------------------

def _call_kws(call):
    return {k.arg: k.value for k in call.keywords}


def _const(n, v):
    return isinstance(n, ast.Constant) and n.value == v and type(n.value) is type(v)


def csv_call(call, failures, where, delim_name='delimiter'):
    d = {'sepIsDelimiter': False, 'engineC': False, 'dtypeStr': False, 'keepDefaultNa': True, 'naFilter': True, 'indexColFalse': False,
         'usecolsRefs': False, 'utf8Strict': False, 'otherKw': []}
    if _u(call.func) != 'pd.read_table' or len(call.args) != 1 or _u(call.args[0]) != LSV:
        failures.append(f'{where}: not `pd.read_table({LSV}, …)`')
        return d
    kws = _call_kws(call)
    if None in kws:
        failures.append(f'{where}: **kwargs')
    sep = kws.get('sep', kws.get('delimiter'))
    d['sepIsDelimiter'] = sep is not None and _is_name(sep, delim_name)
    d['sepNone'] = sep is not None and isinstance(sep, ast.Constant) and sep.value is None
    eng = kws.get('engine')
    d['engineC'] = eng is not None and _const(eng, 'c')
    d['enginePython'] = eng is not None and _const(eng, 'python')
    d['dtypeStr'] = 'dtype' in kws and _is_name(kws['dtype'], 'str')
    d['keepDefaultNa'] = not ('keep_default_na' in kws and _const(kws['keep_default_na'], False))
    d['naFilter'] = not ('na_filter' in kws and _const(kws['na_filter'], False))
    d['indexColFalse'] = 'index_col' in kws and _const(kws['index_col'], False)
    d['usecolsRefs'] = 'usecols' in kws and _is_name(kws['usecols'], 'references')
    d['utf8Strict'] = 'encoding' in kws and _const(kws['encoding'], 'utf-8') and 'encoding_errors' in kws and _const(kws['encoding_errors'], 'strict')
    known = {'sep', 'engine', 'dtype', 'keep_default_na', 'na_filter', 'index_col', 'usecols', 'encoding', 'encoding_errors'}
    d['otherKw'] = sorted(f'{k}={_u(v)}' for k, v in kws.items() if k not in known and k is not None)
    return d


def read_csv_shape(src, failures):
    delim = {'testConst': '', 'thenSep': '', 'elseSep': ''}
    empty = csv_call(ast.parse('f()').body[0].value, [], '')
    try:
        fn = src.func('data_source/data_file.py', '_read_csv')
    except KeyError:
        failures.append('_read_csv not found')
        return delim, empty, empty
    if [a.arg for a in fn.args.args] != ['rml_rule', 'references', 'file_source_type']:
        failures.append('_read_csv: unexpected parameters')
    body = _body(fn)
    if len(body) != 2:
        failures.append(f'_read_csv: {len(body)} statements, expected the delimiter choice and one try statement')
        return delim, empty, empty
    st = body[0]
    ok = False
    delim_name = st.targets[0].id if isinstance(st, ast.Assign) and len(st.targets) == 1 and isinstance(st.targets[0], ast.Name) else 'delimiter'
    if _assign_to(st, delim_name) and isinstance(st.value, ast.IfExp):
        t = st.value.test
        if isinstance(t, ast.Compare) and len(t.ops) == 1 and isinstance(t.ops[0], ast.Eq) and _is_name(t.left, 'file_source_type') \
                and isinstance(t.comparators[0], ast.Constant) and isinstance(t.comparators[0].value, str) \
                and isinstance(st.value.body, ast.Constant) and isinstance(st.value.orelse, ast.Constant) \
                and isinstance(st.value.body.value, str) and isinstance(st.value.orelse.value, str):
            delim = {'testConst': t.comparators[0].value, 'thenSep': st.value.body.value, 'elseSep': st.value.orelse.value}
            ok = True
    if not ok:
        failures.append('_read_csv: unrecognised delimiter choice `' + _u(st)[:120] + '`')
    tr = body[1]
    if not (isinstance(tr, ast.Try) and len(tr.body) == 1 and isinstance(tr.body[0], ast.Return) and isinstance(tr.body[0].value, ast.Call)
            and len(tr.handlers) == 1 and tr.handlers[0].type is None and len(tr.handlers[0].body) == 1
            and isinstance(tr.handlers[0].body[0], ast.Return) and isinstance(tr.handlers[0].body[0].value, ast.Call)
            and not tr.orelse and not tr.finalbody):
        failures.append('_read_csv: not `try: return pd.read_table(…) except: return pd.read_table(…)`')
        return delim, empty, empty
    c1 = csv_call(tr.body[0].value, failures, '_read_csv (first call)', delim_name)
    c2 = csv_call(tr.handlers[0].body[0].value, failures, '_read_csv (fallback call)')
    if not c1['sepIsDelimiter']:
        failures.append('_read_csv: the first call does not pass sep=delimiter')
    if not c1['engineC']:
        failures.append("_read_csv: the first call does not use engine='c' (the tokenizer contract is that of the C engine)")
    if not (c2.get('sepNone') and c2.get('enginePython')):
        failures.append("_read_csv: the fallback call is not sep=None, engine='python'")
    for nm, c in (('first', c1), ('fallback', c2)):
        if c['otherKw']:
            failures.append(f'_read_csv ({nm} call): keyword arguments outside the tokenizer contract: ' + ', '.join(c['otherKw']))
    return delim, c1, c2


def excel_call(src, name, failures):
    d = {'engine': '', 'sheetFirst': False, 'usecolsRefs': False, 'dtypeStr': False, 'keepDefaultNa': True, 'naFilter': True, 'otherKw': []}
    try:
        fn = src.func('data_source/data_file.py', name)
    except KeyError:
        failures.append(f'{name} not found')
        return d
    body = _body(fn)
    if not (len(body) == 1 and isinstance(body[0], ast.Return) and isinstance(body[0].value, ast.Call) and _u(body[0].value.func) == 'pd.read_excel'
            and len(body[0].value.args) == 1 and _u(body[0].value.args[0]) == LSV):
        failures.append(f'{name}: not `return pd.read_excel({LSV}, …)`')
        return d
    kws = _call_kws(body[0].value)
    e = kws.get('engine')
    d['engine'] = e.value if isinstance(e, ast.Constant) and isinstance(e.value, str) else ''
    d['sheetFirst'] = 'sheet_name' in kws and _const(kws['sheet_name'], 0)
    d['usecolsRefs'] = 'usecols' in kws and _is_name(kws['usecols'], 'references')
    d['dtypeStr'] = 'dtype' in kws and _is_name(kws['dtype'], 'str')
    d['keepDefaultNa'] = not ('keep_default_na' in kws and _const(kws['keep_default_na'], False))
    d['naFilter'] = not ('na_filter' in kws and _const(kws['na_filter'], False))
    known = {'engine', 'sheet_name', 'usecols', 'dtype', 'keep_default_na', 'na_filter'}
    d['otherKw'] = sorted(f'{k}={_u(v)}' for k, v in kws.items() if k not in known)
    if d['otherKw']:
        failures.append(f'{name}: keyword arguments outside the reader model: ' + ', '.join(d['otherKw']))
    return d


PLAIN_EXPECT = {
    '_read_parquet': ('pd.read_parquet', 'columns', {'engine': "'pyarrow'"}),
    '_read_feather': ('pd.read_feather', 'columns', {'use_threads': 'False'}),
    '_read_orc': ('pd.read_orc', 'columns', {}),
    '_read_stata': ('pd.read_stata', 'columns', {'convert_dates': 'False', 'convert_categoricals': 'False', 'convert_missing': 'False',
                                                 'preserve_dtypes': 'False', 'order_categoricals': 'False'}),
    '_read_sas': ('pd.read_sas', None, {'encoding': "'utf-8'"}),
    '_read_spss': ('pd.read_spss', 'usecols', {'convert_categoricals': 'False'}),
}


def plain_call(src, name, failures):
    d = {'func': '', 'columnsRefs': False, 'kws': []}
    try:
        fn = src.func('data_source/data_file.py', name)
    except KeyError:
        failures.append(f'{name} not found')
        return d
    body = _body(fn)
    if not (len(body) == 1 and isinstance(body[0], ast.Return) and isinstance(body[0].value, ast.Call) and len(body[0].value.args) == 1
            and _u(body[0].value.args[0]) == LSV):
        failures.append(f'{name}: not `return pd.<reader>({LSV}, …)`')
        return d
    call = body[0].value
    func, colkw, expect = PLAIN_EXPECT[name]
    d['func'] = _u(call.func)
    kws = _call_kws(call)
    d['columnsRefs'] = colkw is not None and colkw in kws and _is_name(kws[colkw], 'references')
    d['kws'] = sorted((k, _u(v)) for k, v in kws.items() if k != colkw)
    if d['func'] != func:
        failures.append(f'{name}: calls {d["func"]}, expected {func}')
    if colkw is not None and not d['columnsRefs']:
        failures.append(f'{name}: `{colkw}=references` missing')
    if dict(d['kws']) != expect:
        failures.append(f'{name}: keyword arguments {dict(d["kws"])} differ from the ones the reader model was validated with {expect}')
    return d


# ----------------------------------------------------------------------------------------------------
# dispatch chains
# ----------------------------------------------------------------------------------------------------

READER_OF = {'_read_tabular_view(rml_rule)': 'view', '_read_csv(rml_rule, references, file_source_type)': 'csv',
             '_read_excel(rml_rule, references)': 'excel', '_read_ods(rml_rule, references)': 'ods',
             '_read_parquet(rml_rule, references)': 'parquet', '_read_feather(rml_rule, references)': 'feather',
             '_read_orc(rml_rule, references)': 'orc', '_read_stata(rml_rule, references)': 'stata', '_read_sas(rml_rule)': 'sas',
             '_read_spss(rml_rule, references)': 'spss', '_read_json(rml_rule, references)': 'json', '_read_xml(rml_rule, references)': 'xml'}


def _if_chain(first):
    out, cur = [], first
    while True:
        out.append((cur.test, cur.body))
        if len(cur.orelse) == 1 and isinstance(cur.orelse[0], ast.If):
            cur = cur.orelse[0]
        else:
            return out, cur.orelse


def _const_values(node, env, failures, where):
    """`X`, `[X, Y]` with X, Y names of constants (str or list of str) -> list of str"""
    def one(n):
        if isinstance(n, ast.Name) and n.id in env:
            v = env[n.id]
            return [v] if isinstance(v, str) else list(v)
        if isinstance(n, ast.Constant) and isinstance(n.value, str):
            return [n.value]
        failures.append(f'{where}: unrecognised constant `{_u(n)}`')
        return []
    if isinstance(node, (ast.List, ast.Tuple)):
        return [x for e in node.elts for x in one(e)]
    return one(node)


def file_dispatch(src, env, failures):
    chain = []
    try:
        fn = src.func('data_source/data_file.py', 'get_file_data')
    except KeyError:
        failures.append('get_file_data not found')
        return chain
    body = _body(fn)
    if len(body) != 3 or sorted(_u(b) for b in body[:2]) != sorted(['references = list(references)', "file_source_type = rml_rule['source_type']"]) \
            or not isinstance(body[2], ast.If):
        failures.append('get_file_data: unrecognised body')
        return chain
    branches, els = _if_chain(body[2])
    if len(els) != 1 or not isinstance(els[0], ast.Raise):
        failures.append('get_file_data: the chain does not end with `raise`')
    for test, b in branches:
        if len(b) != 1 or not isinstance(b[0], ast.Return) or _u(b[0].value) not in READER_OF:
            failures.append('get_file_data: unrecognised branch body `' + ' ; '.join(_u(s) for s in b)[:120] + '`')
            continue
        reader = READER_OF[_u(b[0].value)]
        t = _u(test)
        if t == "rml_rule['logical_source_type'] == RML_QUERY":
            chain.append(('isQuery', [], reader))
        elif isinstance(test, ast.Compare) and len(test.ops) == 1 and _is_name(test.left, 'file_source_type') \
                and isinstance(test.ops[0], (ast.In, ast.Eq)):
            vals = _const_values(test.comparators[0], env, failures, 'get_file_data')
            if isinstance(test.ops[0], ast.Eq) and len(vals) != 1:
                failures.append(f'get_file_data: `==` against a list in `{t}`')
            chain.append(('typeIn', vals, reader))
        else:
            failures.append(f'get_file_data: unrecognised test `{t}`')
    return chain


def get_data_dispatch(src, failures):
    try:
        fn = src.func('materializer.py', '_get_data')
    except KeyError:
        failures.append('_get_data not found')
        return False
    want = ["if rml_rule['source_type'] == RDB: data = get_sql_data(config, rml_rule, references) "
            "elif rml_rule['source_type'] == PGDB: data = get_pg_data(config, rml_rule, references) "
            "elif rml_rule['source_type'] in FILE_SOURCE_TYPES: data = get_file_data(rml_rule, references) "
            "elif rml_rule['source_type'] in IN_MEMORY_TYPES: data = get_ram_data(rml_rule, references, python_source)",
            'data = _preprocess_data(data, rml_rule, references, config)', 'return data']
    got = [_u(s) for s in _body(fn)]
    if got != want:
        failures.append('_get_data: unrecognised body (expected RDB -> get_sql_data, file types -> get_file_data, in-memory -> get_ram_data, '
                        'then _preprocess_data)')
        return False
    return True


def source_type_steps(src, env, failures):
    steps = []
    try:
        fn = src.func('mapping/mapping_parser.py', '_complete_source_types', cls='MappingParser')
    except KeyError:
        failures.append('_complete_source_types not found')
        return steps
    body = _body(fn)
    if len(body) != 2 or not isinstance(body[0], ast.For) or _u(body[1]) != "self.rml_df.drop(columns='reference_formulation', inplace=True)" \
            or _u(body[0].target) != '(i, rml_rule)' or _u(body[0].iter) != 'self.rml_df.iterrows()' or len(body[0].body) != 1 \
            or not isinstance(body[0].body[0], ast.If):
        failures.append('_complete_source_types: unrecognised body')
        return steps
    branches, els = _if_chain(body[0].body[0])
    if [_u(s) for s in els] != ["raise Exception('No source type could be retrieved for some mapping rules.')"]:
        failures.append('_complete_source_types: the chain does not end with the exception')

    def assigned(b):
        if len(b) == 1 and _u(b[0]).startswith("self.rml_df.at[i, 'source_type'] = ") and isinstance(b[0].value, ast.Name) and b[0].value.id in env \
                and isinstance(env[b[0].value.id], str):
            return env[b[0].value.id]
        return None
    import re
    for test, b in branches:
        t = _u(test)
        m = re.fullmatch(r"pd\.notna\(rml_rule\['reference_formulation'\]\) and '([A-Z]+)' in rml_rule\['reference_formulation'\]\.upper\(\)", t)
        if m and assigned(b) is not None:
            steps.append(('refFormContains', m.group(1), assigned(b)))
        elif t == "self.config.has_db_url(rml_rule['source_name'])" and assigned(b) is not None:
            steps.append(('hasDbUrl', assigned(b)))
        elif t == "rml_rule['logical_source_type'] == RML_QUERY" and assigned(b) is not None:
            steps.append(('isQuery', assigned(b)))
        elif t == ("rml_rule['logical_source_type'] == RML_SOURCE and self.rml_df.at[i, 'logical_source_value'].startswith('{') and "
                   "self.rml_df.at[i, 'logical_source_value'].endswith('}')") and assigned(b) is not None:
            steps.append(('braces', assigned(b)))
        elif t == "rml_rule['logical_source_type'] == RML_SOURCE":
            want = ["file_extension = os.path.splitext(str(rml_rule['logical_source_value']))[1][1:].strip()",
                    "if file_extension.upper() in FILE_SOURCE_TYPES: self.rml_df.at[i, 'source_type'] = file_extension.upper() "
                    "elif pd.notna(rml_rule['reference_formulation']): self.rml_df.at[i, 'source_type'] = "
                    "rml_rule['reference_formulation'].replace(RML_NAMESPACE, '').upper() "
                    "else: raise Exception('No source type could be retrieved for some mapping rules.')"]
            if [_u(s) for s in b] == want:
                steps.append(('byExtension',))
            else:
                failures.append('_complete_source_types: unrecognised file-extension branch')
        else:
            failures.append(f'_complete_source_types: unrecognised branch `{t[:140]}`')
    return steps


def preprocess_mapping_steps(src, failures):
    try:
        fn = src.func('mapping/mapping_parser.py', '_preprocess_mappings', cls='MappingParser')
    except KeyError:
        failures.append('_preprocess_mappings not found')
        return []
    out = []
    for st in _body(fn):
        u = _u(st)
        if u == 'self.rml_df = self.rml_df.drop_duplicates()':
            out.append('drop_duplicates')
        elif isinstance(st, ast.Expr) and isinstance(st.value, ast.Call) and not st.value.args and not st.value.keywords \
                and isinstance(st.value.func, ast.Attribute) and _is_name(st.value.func.value, 'self'):
            out.append(st.value.func.attr)
        else:
            failures.append(f'_preprocess_mappings: unrecognised statement `{u[:120]}`')
    return out


BRACKET_BODY = ("square_brackets = ['[', ']'] num_enclosing_char = 0 for char in sql_query: if char == '`': dialect_sql_query = dialect_sql_query + "
                "square_brackets[num_enclosing_char % 2] num_enclosing_char += 1 else: dialect_sql_query = dialect_sql_query + char")


def dialect_styles(src, env, failures):
    styles, default = [], ('keep',)
    try:
        fn = src.func('data_source/relational_db.py', '_replace_query_enclosing_characters')
    except KeyError:
        failures.append('_replace_query_enclosing_characters not found')
        return styles, default
    body = _body(fn)
    if len(body) != 3 or _u(body[0]) != "dialect_sql_query = ''" or not isinstance(body[1], ast.If) or _u(body[2]) != 'return dialect_sql_query':
        failures.append('_replace_query_enclosing_characters: unrecognised body')
        return styles, default

    def style_of(b):
        txt = ' '.join(_u(s) for s in b)
        if txt == 'dialect_sql_query = sql_query':
            return ('keep',)
        if txt == BRACKET_BODY:
            return ('brackets',)
        if len(b) == 1 and _assign_to(b[0], 'dialect_sql_query'):
            v = b[0].value
            if isinstance(v, ast.Call) and _u(v.func) == 'sql_query.replace' and len(v.args) == 2 and not v.keywords and _const(v.args[0], '`') \
                    and isinstance(v.args[1], ast.Constant) and isinstance(v.args[1].value, str):
                return ('replaceBy', v.args[1].value)
        return None
    branches, els = _if_chain(body[1])
    for test, b in branches:
        st = style_of(b)
        if not (isinstance(test, ast.Compare) and len(test.ops) == 1 and _is_name(test.left, 'db_dialect') and isinstance(test.ops[0], (ast.In, ast.Eq))) \
                or st is None:
            failures.append('_replace_query_enclosing_characters: unrecognised branch `' + _u(test)[:80] + '`')
            continue
        styles.append((_const_values(test.comparators[0], env, failures, '_replace_query_enclosing_characters'), st))
    st = style_of(els)
    if st is None:
        failures.append('_replace_query_enclosing_characters: unrecognised else branch')
    else:
        default = st
    return styles, default


FRAME_BRANCH = ("source_value = source_value.copy() for col in source_value.select_dtypes(include=['object']).columns: "
                "source_value[col] = source_value[col].apply(lambda x: x.replace(%s, '') if isinstance(x, str) else x) return source_value[references]")


def frame_strip(src, failures):
    """characters deleted from the string cells of a DataFrame source"""
    try:
        fn = src.func('data_source/python_data.py', 'get_ram_data')
    except KeyError:
        failures.append('get_ram_data not found')
        return ''
    body = _body(fn)
    head = [_u(s) for s in body[:3]]
    if head != ['references = list(references)', "source_key = rml_rule['logical_source_value'][1:-1]", 'source_value = python_source[source_key]'] \
            or len(body) != 4 or not isinstance(body[3], ast.If):
        failures.append('get_ram_data: unrecognised body')
        return ''
    if _u(body[3].test) != 'isinstance(source_value, pd.DataFrame)':
        failures.append('get_ram_data: the first branch is not the DataFrame branch')
        return ''
    txt = ' '.join(_u(s) for s in body[3].body)
    if txt in ('return source_value[references]', 'source_value = source_value.copy() return source_value[references]',
               'return source_value[references].copy()'):
        return ''
    import re
    m = re.fullmatch(re.escape(FRAME_BRANCH).replace('%s', r"('(?:[^'\\]|\\.)'|\"(?:[^\"\\]|\\.)\")"), txt)
    if m:
        return ast.literal_eval(m.group(1))
    failures.append('get_ram_data: unrecognised DataFrame branch `' + txt[:160] + '`')
    return ''


def reader_bodies(src, failures):
    """the statement lists of the readers whose Lean models live in Model/NullSources.lean (C06 reads their NULL-relevant variants)"""
    ok = True

    def expect(rel, name, want, cls=None):
        nonlocal ok
        try:
            fn = src.func(rel, name, cls=cls)
        except KeyError:
            failures.append(f'{name} not found')
            ok = False
            return
        got = [_u(s) for s in _body(fn)]
        if len(got) != len(want) or any((g not in w) if isinstance(w, (set, tuple, list)) else (g != w) for g, w in zip(got, want)):
            bad = next((g for g, w in zip(got, want) if ((g not in w) if isinstance(w, (set, tuple, list)) else (g != w))), f'{len(got)} statements')
            failures.append(f'{name}: statement list differs from the one the reader model was written for, first at `{bad[:140]}`')
            ok = False
    drop = {"json_df.dropna(axis=0, how='any', subset=references, inplace=True)", "json_df.dropna(axis=0, how='any', inplace=True)"}
    expect('data_source/data_file.py', '_read_json', [
        "if rml_rule['logical_source_value'].startswith('http'): with urllib.request.urlopen(rml_rule['logical_source_value']) as json_url: "
        "json_data = json.loads(json_url.read().decode()) else: with open(rml_rule['logical_source_value'], encoding='utf-8') as json_file: "
        "json_data = json.load(json_file)",
        "jsonpath_expression = rml_rule['iterator'] + '.('",
        "for reference in references: jsonpath_expression += reference.split('.')[0] + ','",
        "jsonpath_expression = jsonpath_expression[:-1] + ')'",
        'jsonpath_result = JSONPath(jsonpath_expression).parse(json_data)',
        'json_df = pd.json_normalize([json_object for json_object in normalize_hierarchical_data(jsonpath_result) if None not in json_object.values()])',
        'missing_references_in_df = list(set(references).difference(set(json_df.columns)))',
        'json_df[missing_references_in_df] = None', drop, 'return json_df'])
    expect('data_source/python_data.py', '_read_inmemory_json', [
        'json_data = json.loads(source_value)',
        "jsonpath_expression = rml_rule['iterator'] + '.('",
        "for reference in references: jsonpath_expression += reference + ','",
        "jsonpath_expression = jsonpath_expression[:-1] + ')'",
        'jsonpath_result = JSONPath(jsonpath_expression).parse(json_data)',
        'json_df = pd.json_normalize([json_object for json_object in normalize_hierarchical_data(jsonpath_result) if None not in json_object.values()])',
        'missing_references_in_df = list(set(references).difference(set(json_df.columns)))',
        'json_df[missing_references_in_df] = np.nan', 'return json_df'])
    expect('data_source/data_file.py', '_read_xml', [
        "if rml_rule['logical_source_value'].startswith('http'): with urllib.request.urlopen(rml_rule['logical_source_value']) as xml_url: "
        "xml_string = xml_url.read() xml_file = BytesIO(xml_string) else: xml_file = open(rml_rule['logical_source_value'], encoding='utf-8')",
        'namespaces = {}',
        "for event, element in et.iterparse(xml_file, events=['end', 'start-ns']): if event == 'start-ns': namespaces[element[0]] = element[1] "
        "elif event == 'end': el = element",
        'parsed = et.ElementTree(el)', 'xml_root = parsed.getroot()',
        "xpath_result = elementpath.iter_select(xml_root, rml_rule['iterator'], namespaces=namespaces, parser=XPath3Parser)",
        'data_records = []', {XML_LOOP % 'e.attrib[attribute]', XML_LOOP % 'e.get(attribute)'},
        'xml_df = pd.DataFrame.from_records(data_records, columns=references)',
        'missing_references_in_df = list(set(references).difference(set(xml_df.columns)))',
        'xml_df[missing_references_in_df] = None', "xml_df.dropna(axis=0, how='any', inplace=True)",
        'for reference in references: xml_df = xml_df.explode(reference)', 'return xml_df'])
    expect('data_source/relational_db.py', 'get_sql_data', [
        'sql_query = _build_sql_query(rml_rule, references)',
        'if sql_query is None: return pd.DataFrame(columns=list(references))',
        "db_connection, db_dialect = _relational_db_connection(config, rml_rule['source_name'])",
        'sql_query = _replace_query_enclosing_characters(sql_query, db_dialect)',
        "logging.debug(f'SQL query for mapping rule `{rml_rule['triples_map_id']}`: [{sql_query}]')",
        'return pd.read_sql_query(sql_query, con=db_connection, coerce_float=False)'])
    expect('data_source/data_file.py', '_read_tabular_view', ["return duckdb.query(rml_rule['logical_source_value']).df()"])
    expect('mapping/mapping_parser.py', '_complete_rml_source_with_config_file_paths', [
        "for section_name in self.config.get_data_sources_sections(): if self.config.has_file_path(section_name): "
        "self.rml_df.loc[self.rml_df['source_name'] == section_name, 'logical_source_type'] = RML_SOURCE "
        "self.rml_df.loc[self.rml_df['source_name'] == section_name, 'logical_source_value'] = self.config.get_file_path(section_name)"],
        cls='MappingParser')
    return ok


# ----------------------------------------------------------------------------------------------------
# rendering
# ----------------------------------------------------------------------------------------------------

def _csv_lean(c):
    return (f'{{ sepIsDelimiter := {_b(c["sepIsDelimiter"])}, engineC := {_b(c["engineC"])}, dtypeStr := {_b(c["dtypeStr"])}, '
            f'keepDefaultNa := {_b(c["keepDefaultNa"])}, naFilter := {_b(c["naFilter"])}, indexColFalse := {_b(c["indexColFalse"])}, '
            f'usecolsRefs := {_b(c["usecolsRefs"])}, utf8Strict := {_b(c["utf8Strict"])}, otherKw := {_strs(c["otherKw"])} }}')


def _excel_lean(c):
    return (f'{{ engine := {lean_str(c["engine"])}, sheetFirst := {_b(c["sheetFirst"])}, usecolsRefs := {_b(c["usecolsRefs"])}, '
            f'dtypeStr := {_b(c["dtypeStr"])}, keepDefaultNa := {_b(c["keepDefaultNa"])}, naFilter := {_b(c["naFilter"])}, otherKw := {_strs(c["otherKw"])} }}')


def _plain_lean(c):
    return (f'{{ func := {lean_str(c["func"])}, columnsRefs := {_b(c["columnsRefs"])}, kws := ['
            + ', '.join(f'({lean_str(k)}, {lean_str(v)})' for k, v in c['kws']) + '] }')


def _style_lean(st):
    return '.replaceBy ' + lean_str(st[1]) if st[0] == 'replaceBy' else '.' + st[0]


def _step_lean(s):
    if s[0] == 'refFormContains':
        return f'.refFormContains {lean_str(s[1])} {lean_str(s[2])}'
    if s[0] == 'byExtension':
        return '.byExtension'
    return f'.{s[0]} {lean_str(s[1])}'


def generate(src, env, out, summary):
    failures = []
    delim, c1, c2 = read_csv_shape(src, failures)
    ex = excel_call(src, '_read_excel', failures)
    od = excel_call(src, '_read_ods', failures)
    plain = {n: plain_call(src, n, failures) for n in PLAIN_EXPECT}
    chain = file_dispatch(src, env, failures)
    gd = get_data_dispatch(src, failures)
    steps = source_type_steps(src, env, failures)
    pm = preprocess_mapping_steps(src, failures)
    styles, default = dialect_styles(src, env, failures)
    strip = frame_strip(src, failures)
    bodies = reader_bodies(src, failures)
    fst = list(env.get('FILE_SOURCE_TYPES', []))
    imt = list(env.get('IN_MEMORY_TYPES', []))
    if not fst:
        failures.append('constants.FILE_SOURCE_TYPES not available')

    lines = [HEADER, 'import MorphKgc.Model.SourceTypes', '', 'namespace Gen', 'open Py Model', '',
             "/-- `delimiter = ',' if file_source_type == 'CSV' else '\\t'` in `data_file._read_csv` -/",
             f'def csvDelimiter : CsvDelimiter := {{ testConst := {lean_str(delim["testConst"])}, thenSep := {lean_str(delim["thenSep"])}, '
             f'elseSep := {lean_str(delim["elseSep"])} }}', '',
             '/-- the first `pd.read_table` call of `_read_csv` (C engine) -/', 'def csvCall : CsvCall :=', '  ' + _csv_lean(c1), '',
             '/-- the fallback call in the `except` branch (python engine, separator sniffed) -/', 'def csvFallbackCall : CsvCall :=', '  ' + _csv_lean(c2), '',
             '/-- `_read_excel` / `_read_ods` -/', 'def excelCall : ExcelCall :=', '  ' + _excel_lean(ex),
             'def odsCall : ExcelCall :=', '  ' + _excel_lean(od), '',
             '/-- the columnar and statistical-package readers -/']
    for n, lname in (('_read_parquet', 'parquetCall'), ('_read_feather', 'featherCall'), ('_read_orc', 'orcCall'), ('_read_stata', 'stataCall'),
                     ('_read_sas', 'sasCall'), ('_read_spss', 'spssCall')):
        lines.append(f'def {lname} : PlainCall := {_plain_lean(plain[n])}')
    lines += ['', '/-- the `if / elif` chain of `data_file.get_file_data`, with the values of the constants, in source order -/',
              'def fileDispatch : List (FileTest × FileReader) := [',
              ',\n'.join('  (' + ('.isQuery' if k == 'isQuery' else '.typeIn ' + _strs(v)) + f', .{r})' for k, v, r in chain), ']', '',
              '/-- `constants.FILE_SOURCE_TYPES`, `constants.IN_MEMORY_TYPES` -/',
              f'def fileSourceTypes : List Str := {_strs(fst)}', f'def inMemoryTypes : List Str := {_strs(imt)}',
              f'def rdbType : Str := {lean_str(env.get("RDB", ""))}', '',
              '/-- `materializer._get_data`: RDB -> `get_sql_data`, file source types -> `get_file_data`, in-memory types -> `get_ram_data`, then `_preprocess_data` -/',
              f'def getDataDispatchRecognised : Bool := {_b(gd)}', '',
              '/-- the decision chain of `mapping_parser._complete_source_types`, in source order -/',
              'def sourceTypeSteps : List SrcStep := [' + ', '.join(_step_lean(s) for s in steps) + ']',
              f'def rmlNamespace : Str := {lean_str(env.get("RML_NAMESPACE", ""))}', '',
              '/-- the calls of `mapping_parser._preprocess_mappings`, in source order -/',
              f'def preprocessMappingSteps : List Str := {_strs(pm)}', '',
              '/-- `relational_db._replace_query_enclosing_characters`: dialect groups in source order, and the `else` branch -/',
              'def dialectStyles : List (List Str × QuoteStyle) := [' + ', '.join(f'({_strs(d)}, {_style_lean(st)})' for d, st in styles) + ']',
              f'def dialectDefault : QuoteStyle := {_style_lean(default)}', '',
              '/-- the text a DataFrame source deletes from its string cells (`x.replace(<this>, \'\')`); empty = nothing is deleted -/',
              f'def frameStrip : Str := {lean_str(strip)}', '',
              '/-- the statement lists of `_read_json`, `_read_inmemory_json`, `_read_xml`, `get_sql_data`, `_read_tabular_view`,',
              '    `_complete_rml_source_with_config_file_paths` are those the reader models were written for -/',
              f'def readerBodiesRecognised : Bool := {_b(bodies)}', '',
              f'def sourceTranslated : Bool := {_b(not failures)}', '', 'end Gen', '']
    write_if_changed(os.path.join(out, 'Source.lean'), '\n'.join(lines))
    summary['source'] = {'csv_delimiter': delim, 'csv_call': c1, 'csv_fallback': c2, 'excel': ex, 'ods': od, 'plain': plain,
                         'dispatch': chain, 'get_data': gd, 'source_type_steps': steps, 'preprocess_mappings': pm,
                         'dialect_styles': styles, 'dialect_default': default, 'frame_strip': strip, 'reader_bodies': bodies,
                         'failures': failures}
