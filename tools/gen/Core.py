"""Core: a small Python -> Lean translator for the string functions every property rests on
   (utils.get_references_in_template, mapping_partitioner.get_invariant_of_template, materializer._materialize_template)
-> Gen/CoreFuncs.lean

Unlike the other sections (which recognise *shapes* and emit data), this one translates the function BODIES statement
by statement into Lean definitions over the `Py` string primitives.  `Props/CoreFuncs.lean` proves that the translated
definitions are equal to the hand-written `Model.getReferencesInTemplate`, `Model.getInvariantOfTemplate` and
`Model.materializeTemplate` for all arguments, so every theorem about the model is a theorem about what the source
says now; any edit of these functions changes the generated definition and the equalities are re-checked by `lake build`.

Python subset: assignments to names, `if/elif/else`, `for x in xs:`, `return`, `raise`, `pass`; expressions over str and
list[str]: constants, names, module constants (resolved to their values), `+`, f-strings, `==`, `and`, `in`,
`.replace/.split/.join/.strip`, `xs[0]`, `xs[1:]`, `str(x)`, list comprehensions over one generator, calls of other
translated functions, `re.findall` with the one pattern the model has a primitive for.
`_materialize_template` is vectorised pandas code; it is read ROW-WISE: `results_df[k] = e` assigns the row's cell of
column k (columns assigned in the function are local variables, identified by the source text of k; any other
`results_df[e]` is a lookup in the input row, a missing column is the KeyError), `.str.replace(a, b, regex=False)`,
`.str.lower()`, `.apply(lambda x: e)`, `.astype(str)` act on the cell.  Third-party calls are mapped to the library models
the C05/C15 checks validate (`quote`, `encode_value` -> `Model.pctEncode`; the anchored regex -> `Model.stripDotZero`;
`remove_non_printable_characters` -> a parameter).  Anything else is a translation failure (reported, never guessed).
"""
import ast
import os

from extract import HEADER, lean_str, write_if_changed


class Fail(Exception):
    pass


USED_CONSTS = {}
RULE_FIELDS = {}
# opaque calls of the rewritten `_get_references_in_rml_rule` -> parameters of the translated code
LIST_PRIMS = {'_fnml_refs': 'fnmlRefs', '_quoted_refs': 'quotedRefs', '_join_child_refs': 'joinChildRefs', '_join_parent_refs': 'joinParentRefs'}
FINDALL_PATTERN = '\\{([^}]+)'
DOTZERO_PATTERN = (r'^([+-]?[0-9]+)\.0\Z', r'\1')


def strip_doc(body):
    if body and isinstance(body[0], ast.Expr) and isinstance(body[0].value, ast.Constant) and isinstance(body[0].value.value, str):
        return body[1:]
    return body


def flat_add(e):
    if isinstance(e, ast.BinOp) and isinstance(e.op, ast.Add):
        return flat_add(e.left) + flat_add(e.right)
    return [e]


class Tr:
    """translator of one function"""

    def __init__(self, env, params, frame=None, translated=()):
        self.env = env                      # module constants (name -> python value)
        self.types = dict(params)           # local name -> 'str' | 'list'
        self.frame = frame                  # name of the DataFrame parameter read row-wise (or None)
        self.cols = {}                      # source text of a column key -> lean variable name
        self.translated = set(translated)   # names of other translated functions
        self.nlift = 0
        self.pending = []
        self.rule = None                    # name of the parameter holding one row of rml_df (fields -> `rule.<field>`)
        self.input_cols = {}                # column name -> lean variable, for columns produced by an earlier call
        self.sigs = {}                      # callee name -> (python parameter names, default nodes)
        self.rules2 = {}                    # further variables holding a row of rml_df -> lean name (e.g. the parent rule)
        self.at_index = None                # row variable `i` of the iterrows loop whose body is translated
        self.at_frames = set()              # source text of the frames `<frame>.at[i, col]` may address
        self.at_written = set()
        self.opt_fields = set()             # rule fields that can be NaN and are only read through str()

    # ---- names ----------------------------------------------------------------------------------
    def v(self, name):
        return 'v_' + name

    def col(self, key_node, create=False):
        k = ast.unparse(key_node)
        if k not in self.cols:
            if not create:
                return None
            base = key_node.value if isinstance(key_node, ast.Constant) and isinstance(key_node.value, str) else k
            self.cols[k] = 'c_' + ''.join(ch if ch.isalnum() else '_' for ch in base)
        return self.cols[k]

    # ---- expressions ----------------------------------------------------------------------------
    def ty(self, e):
        if isinstance(e, ast.Name) and e.id in self.types:
            return self.types[e.id]
        if isinstance(e, ast.Constant) and isinstance(e.value, bool):
            return 'bool'
        if isinstance(e, ast.Constant) and isinstance(e.value, int):
            return 'nat'
        if isinstance(e, ast.BinOp) and isinstance(e.op, ast.Add) and self.ty(e.left) == 'nat':
            return 'nat'
        if isinstance(e, ast.Call) and isinstance(e.func, ast.Attribute) and e.func.attr == 'split':
            return 'list'
        if isinstance(e, ast.Call) and ast.unparse(e.func) == 're.findall':
            return 'list'
        if isinstance(e, ast.Call) and isinstance(e.func, ast.Name) and e.func.id == 'get_references_in_template':
            return 'list'
        if isinstance(e, ast.ListComp) or isinstance(e, ast.List):
            return 'list'
        if isinstance(e, ast.Subscript) and isinstance(e.slice, ast.Slice) and self.ty(e.value) == 'list':
            return 'list'
        if isinstance(e, ast.BinOp) and isinstance(e.op, ast.Add) and self.ty(e.left) == 'list':
            return 'list'
        if isinstance(e, ast.Call) and isinstance(e.func, ast.Name) and e.func.id in LIST_PRIMS:
            return 'list'
        return 'str'

    def expr(self, e):
        if isinstance(e, ast.Constant) and isinstance(e.value, str):
            return lean_str(e.value)
        if isinstance(e, ast.Constant) and isinstance(e.value, int) and not isinstance(e.value, bool) and e.value >= 0:
            return str(e.value)
        if isinstance(e, ast.Name):
            if e.id in self.types:
                return self.v(e.id)
            if e.id in self.env and isinstance(self.env[e.id], str):
                USED_CONSTS.setdefault(e.id, self.env[e.id])
                return e.id
            raise Fail(f'unknown name {e.id}')
        if isinstance(e, ast.JoinedStr):
            parts = []
            for p in e.values:
                if isinstance(p, ast.Constant):
                    parts.append(lean_str(p.value))
                elif isinstance(p, ast.FormattedValue) and p.conversion == -1 and p.format_spec is None:
                    parts.append(f'(Model.natStr {self.expr(p.value)})' if self.ty(p.value) == 'nat' else self.expr(p.value))
                else:
                    raise Fail('f-string with conversion / format spec')
            return '(' + ' ++ '.join(parts) + ')' if parts else lean_str('')
        if isinstance(e, ast.BinOp) and isinstance(e.op, ast.Add) and self.ty(e.left) == 'nat':
            return f'({self.expr(e.left)} + {self.expr(e.right)})'
        if isinstance(e, ast.BinOp) and isinstance(e.op, ast.Add):
            return '(' + ' ++ '.join(self.expr(p) for p in flat_add(e)) + ')'
        if isinstance(e, ast.Subscript):
            return self.subscript(e)
        if isinstance(e, ast.List):
            return '[' + ', '.join(self.expr(x) for x in e.elts) + ']'
        if isinstance(e, ast.ListComp):
            if len(e.generators) != 1 or e.generators[0].ifs or not isinstance(e.generators[0].target, ast.Name):
                raise Fail('list comprehension shape')
            g = e.generators[0]
            x = g.target.id
            old = self.types.get(x)
            self.types[x] = 'str'
            body = self.expr(e.elt)
            if old is None:
                del self.types[x]
            else:
                self.types[x] = old
            return f'(List.map (fun {self.v(x)} => {body}) {self.expr(g.iter)})'
        if isinstance(e, ast.Call):
            return self.call(e)
        raise Fail(f'expression {ast.unparse(e)[:60]}')

    def at_col(self, e):
        """`<df>.at[i, 'col']` for the row variable `i` of the enclosing iterrows loop -> column name, else None"""
        if isinstance(e, ast.Subscript) and isinstance(e.value, ast.Attribute) and e.value.attr == 'at' and self.at_index \
                and isinstance(e.slice, ast.Tuple) and len(e.slice.elts) == 2 and isinstance(e.slice.elts[0], ast.Name) \
                and e.slice.elts[0].id == self.at_index and isinstance(e.slice.elts[1], ast.Constant) \
                and isinstance(e.slice.elts[1].value, str) and e.slice.elts[1].value.isidentifier() \
                and ast.unparse(e.value.value) in self.at_frames:
            return e.slice.elts[1].value
        return None

    def subscript(self, e):
        c = self.at_col(e)
        if c is not None:
            if c in self.at_written:
                raise Fail(f'cell {c} is read after it was written in the same iteration')
            RULE_FIELDS.setdefault(c, None)
            return f'rule.{c}'
        if isinstance(e.value, ast.Name) and e.value.id in self.rules2:
            if not (isinstance(e.slice, ast.Constant) and isinstance(e.slice.value, str) and e.slice.value.isidentifier()):
                raise Fail(f'rule field {ast.unparse(e.slice)[:40]}')
            RULE_FIELDS.setdefault(e.slice.value, None)
            return f'{self.rules2[e.value.id]}.{e.slice.value}'
        if self.rule and isinstance(e.value, ast.Name) and e.value.id == self.rule:
            if not (isinstance(e.slice, ast.Constant) and isinstance(e.slice.value, str) and e.slice.value.isidentifier()):
                raise Fail(f'rule field {ast.unparse(e.slice)[:40]}')
            RULE_FIELDS.setdefault(e.slice.value, None)
            return f'rule.{e.slice.value}'
        if self.frame and isinstance(e.value, ast.Name) and e.value.id == self.frame:
            if isinstance(e.slice, ast.Constant) and e.slice.value in self.input_cols:
                return self.input_cols[e.slice.value]
            c = self.col(e.slice)
            if c:
                return c
            n = f'r_{self.nlift}'
            self.nlift += 1
            self.pending.append((n, 'rowGet row ' + self.expr(e.slice)))
            return n
        if isinstance(e.slice, ast.Constant) and e.slice.value == 0 and self.ty(e.value) == 'list':
            return f'(List.headD {self.expr(e.value)} [])'
        if isinstance(e.slice, ast.Slice) and isinstance(e.slice.lower, ast.Constant) and e.slice.lower.value == 1 \
                and e.slice.upper is None and e.slice.step is None and self.ty(e.value) == 'list':
            return f'(List.tail {self.expr(e.value)})'
        raise Fail(f'subscript {ast.unparse(e)[:60]}')

    def call(self, e):
        f = e.func
        src = ast.unparse(f)
        kws = {k.arg: k.value for k in e.keywords}
        if isinstance(f, ast.Name):
            if f.id == 'str' and len(e.args) == 1 and not kws:
                a = e.args[0]
                if self.ty(a) == 'nat':
                    return f'(Model.natStr {self.expr(a)})'
                if isinstance(a, ast.Subscript) and isinstance(a.value, ast.Name) and a.value.id == self.rule \
                        and isinstance(a.slice, ast.Constant) and a.slice.value in self.opt_fields:
                    RULE_FIELDS[a.slice.value] = 'opt'
                    return f'(pyStrOpt rule.{a.slice.value})'
                return self.expr(a)
            if f.id in LIST_PRIMS and len(e.args) == 1 and not kws:
                return f'(prims.{LIST_PRIMS[f.id]} {self.expr(e.args[0])})'
            if f.id == getattr(self, 'opt_call', None) and len(e.args) == 1 and not kws:
                n = f'r_{self.nlift}'
                self.nlift += 1
                self.pending.append((n, f'Gen.Core.{f.id} {self.expr(e.args[0])}'))
                return n
            if f.id in self.translated and not kws:
                return '(' + f.id + ' ' + ' '.join(self.expr(a) for a in e.args) + ')'
            if f.id == 'remove_non_printable_characters' and len(e.args) == 1 and not kws:
                return f'(prims.removeNonPrintable {self.expr(e.args[0])})'
            if f.id == 'encode_value' and len(e.args) == 1 and not kws:
                return f'(Model.pctEncode [] {self.expr(e.args[0])})'
            if f.id == 'quote' and len(e.args) == 1 and set(kws) == {'safe'}:
                return f'(Model.pctEncode {self.expr(kws["safe"])} {self.expr(e.args[0])})'
            raise Fail(f'call of {f.id}')
        if src == 're.findall' and len(e.args) == 2 and not kws:
            if not (isinstance(e.args[0], ast.Constant) and e.args[0].value == FINDALL_PATTERN):
                raise Fail(f're.findall with pattern {ast.unparse(e.args[0])} (only {FINDALL_PATTERN!r} has a primitive)')
            return f'(Model.findallBraceRef none {self.expr(e.args[1])})'
        if src == 'config.only_write_printable_characters' and not e.args and not kws:
            return 'prims.onlyPrintable'
        if src == 'config.get_safe_percent_encoding' and not e.args and not kws:
            return 'prims.safe'
        if src == 'config.get_output_format' and not e.args and not kws:
            return 'prims.outputFormat'
        if isinstance(f, ast.Attribute):
            recv, m = f.value, f.attr
            # pandas string accessor: X.str.method(...)
            if isinstance(recv, ast.Attribute) and recv.attr == 'str':
                x = self.expr(recv.value)
                if m == 'lower' and not e.args and not kws:
                    return f'(Py.asciiLower {x})'
                if m == 'replace' and len(e.args) == 2 and set(kws) == {'regex'} and isinstance(kws['regex'], ast.Constant):
                    if kws['regex'].value is False:
                        return f'(Py.replace {x} {self.expr(e.args[0])} {self.expr(e.args[1])})'
                    if kws['regex'].value is True and all(isinstance(a, ast.Constant) for a in e.args) \
                            and (e.args[0].value, e.args[1].value) == DOTZERO_PATTERN:
                        return f'(Model.stripDotZero {x})'
                raise Fail(f'pandas .str.{m} call {ast.unparse(e)[:80]}')
            if m == 'apply' and len(e.args) == 1 and not kws and isinstance(e.args[0], ast.Lambda) \
                    and len(e.args[0].args.args) == 1:
                lam = e.args[0]
                x = lam.args.args[0].arg
                old = self.types.get(x)
                self.types[x] = 'str'
                body = self.expr(lam.body)
                if old is None:
                    del self.types[x]
                else:
                    self.types[x] = old
                return f'((fun {self.v(x)} => {body}) {self.expr(recv)})'
            if m == 'astype' and len(e.args) == 1 and not kws and ast.unparse(e.args[0]) == 'str':
                return self.expr(recv)          # cells are str after _preprocess_data
            if m == 'replace' and len(e.args) == 2 and not kws:
                return f'(Py.replace {self.expr(recv)} {self.expr(e.args[0])} {self.expr(e.args[1])})'
            if m == 'split' and len(e.args) == 1 and not kws:
                return f'(Py.split {self.expr(recv)} {self.expr(e.args[0])})'
            if m == 'join' and len(e.args) == 1 and not kws:
                return f'(Py.join {self.expr(recv)} {self.expr(e.args[0])})'
            if m == 'strip' and not e.args and not kws:
                return f'(Py.strip {self.expr(recv)})'
            if m == 'startswith' and len(e.args) == 1 and not kws:
                return f'(Py.startsWith {self.expr(recv)} {self.expr(e.args[0])})'
        raise Fail(f'call {ast.unparse(e)[:80]}')

    def cond(self, t):
        if isinstance(t, ast.Call) and ast.unparse(t.func) == 'pd.isna' and len(t.args) == 1 and isinstance(t.args[0], ast.Subscript) \
                and isinstance(t.args[0].value, ast.Name) and t.args[0].value.id == self.rule \
                and isinstance(t.args[0].slice, ast.Constant) and isinstance(t.args[0].slice.value, str):
            k = t.args[0].slice.value + '_isna'
            RULE_FIELDS[k] = 'bool'
            return f'(rule.{k} = true)'
        if isinstance(t, ast.UnaryOp) and isinstance(t.op, ast.Not):
            return f'(¬ {self.cond(t.operand)})'
        if isinstance(t, ast.Name) and self.types.get(t.id) == 'bool':
            return f'({self.v(t.id)} = true)'
        if isinstance(t, ast.Call) and isinstance(t.func, ast.Attribute) and t.func.attr == 'startswith':
            return f'({self.expr(t)} = true)'
        if isinstance(t, ast.BoolOp) and isinstance(t.op, ast.And):
            return '(' + ' ∧ '.join(self.cond(v) for v in t.values) + ')'
        if isinstance(t, ast.Compare) and len(t.ops) == 1:
            a, b = t.left, t.comparators[0]
            if isinstance(t.ops[0], ast.Eq):
                return f'({self.expr(a)} = {self.expr(b)})'
            if isinstance(t.ops[0], ast.NotEq):
                return f'({self.expr(a)} ≠ {self.expr(b)})'
            if isinstance(t.ops[0], ast.In) and isinstance(b, ast.List) and b.elts:
                x = self.expr(a)
                return '(' + ' ∨ '.join(f'{x} = {self.expr(el)}' for el in b.elts) + ')'
            if isinstance(t.ops[0], ast.In) and self.ty(b) == 'str':
                return f'(Py.isInfix {self.expr(a)} {self.expr(b)} = true)'
            raise Fail(f'comparison {ast.unparse(t)[:60]}')
        if isinstance(t, ast.Call) and ast.unparse(t.func) == 'config.only_write_printable_characters':
            return '(prims.onlyPrintable = true)'
        # truthiness of a str
        if self.ty(t) == 'str':
            return f'({self.expr(t)} ≠ [])'
        raise Fail(f'condition {ast.unparse(t)[:60]}')

    # ---- statements -----------------------------------------------------------------------------
    # Every statement becomes a `let` that rebinds the variables it assigns; an `if` becomes
    # `let (modified variables) := if c then (…; (modified variables)) else (…; (modified variables))`, a `for` becomes a call
    # of a generated structurally recursive helper over the list with the modified variables as its state.  No
    # `let mut`: the elaborated term has the size of the source and can be unfolded by `simp`.

    def declare(self, body):
        """names and columns assigned anywhere in `body`, with inferred types, in order of first assignment"""
        out = []
        for st in body:
            for n in ast.walk(st):
                if isinstance(n, ast.AugAssign):
                    if not (isinstance(n.target, ast.Name) and isinstance(n.op, ast.Add) and self.types.get(n.target.id) == 'nat'):
                        raise Fail(f'augmented assignment {ast.unparse(n)[:40]}')
                    if self.v(n.target.id) not in [x for x, _ in out]:
                        out.append((self.v(n.target.id), 'nat'))
                if isinstance(n, ast.Assign):
                    if len(n.targets) != 1:
                        raise Fail('multiple assignment targets')
                    t = n.targets[0]
                    if isinstance(t, ast.Name) and t.id in self.rules2:
                        continue
                    if self.at_col(t) is not None:
                        c = 'o_' + self.at_col(t)
                        if c not in [x for x, _ in out]:
                            out.append((c, 'str'))
                        continue
                    if isinstance(t, ast.Name) and t.id == self.frame and isinstance(n.value, ast.Call) \
                            and isinstance(n.value.func, ast.Name) and n.value.func.id in self.sigs:
                        call = n.value
                        pnames, _ = self.sigs[call.func.id]
                        pos = dict(zip(pnames, call.args)).get('position') or {k.arg: k.value for k in call.keywords}.get('position')
                        if pos is None or not isinstance(pos, ast.Constant):
                            raise Fail('position argument of a frame call')
                        c = self.col(pos, create=True)
                        if c not in [x for x, _ in out]:
                            out.append((c, 'str'))
                        continue
                    if isinstance(t, ast.Name):
                        ty = self.types.get(t.id) or self.ty(n.value)
                        self.types.setdefault(t.id, ty)
                        if self.v(t.id) not in [x for x, _ in out]:
                            out.append((self.v(t.id), ty))
                    elif isinstance(t, ast.Subscript) and self.frame and isinstance(t.value, ast.Name) and t.value.id == self.frame:
                        c = self.col(t.slice, create=True)
                        if c not in [x for x, _ in out]:
                            out.append((c, 'str'))
                    else:
                        raise Fail(f'assignment target {ast.unparse(t)[:40]}')
        self.decl = out
        return out

    def target(self, t):
        c = self.at_col(t)
        if c is not None:
            return 'o_' + c
        return self.v(t.id) if isinstance(t, ast.Name) else self.col(t.slice, create=True)

    def mods(self, body):
        got = set()
        for st in body:
            for n in ast.walk(st):
                if isinstance(n, ast.AugAssign):
                    got.add(self.target(n.target))
                if isinstance(n, ast.Assign):
                    t = n.targets[0]
                    if isinstance(t, ast.Name) and t.id in self.rules2:
                        continue
                    if isinstance(t, ast.Name) and t.id == self.frame and isinstance(n.value, ast.Call) \
                            and isinstance(n.value.func, ast.Name) and n.value.func.id in self.sigs:
                        pnames, _ = self.sigs[n.value.func.id]
                        pos = dict(zip(pnames, n.value.args)).get('position') or {k.arg: k.value for k in n.value.keywords}.get('position')
                        got.add(self.col(pos, create=True))
                    else:
                        got.add(self.target(t))
        return [x for x, _ in self.decl if x in got]

    @staticmethod
    def tup(names):
        return names[0] if len(names) == 1 else '(' + ', '.join(names) + ')'

    def tupty(self, names):
        d = dict(self.decl)
        return ' × '.join(LEAN_TY[d[n]] for n in names)

    def block(self, body, ind):
        """-> (lines, monadic, ends_in_raise)"""
        lines, monadic = [], False
        for i, st in enumerate(body):
            if isinstance(st, ast.Raise):
                if self.raise_as is None:
                    raise Fail('raise in a function translated as total')
                if i != len(body) - 1:
                    raise Fail('raise is not the last statement of its block')
                return lines + [f'{ind}{self.raise_as}'], True, True
            ls, m = self.stmt(st, ind)
            lines += ls
            monadic = monadic or m
        return lines, monadic, False

    def frame_call(self, st, ind):
        """`frame = _materialize_template(frame, value, kind, config, 'col', kw=…)` / `_materialize_fnml_execution(…)`:
           row-wise, the call assigns the cell of the column named by its 5th argument"""
        call = st.value
        name = call.func.id
        pnames, defaults = self.sigs[name]
        if len(call.args) > len(pnames):
            raise Fail(f'too many arguments in the call of {name}')
        bound = dict(zip(pnames, call.args))
        for k in call.keywords:
            if k.arg is None or k.arg not in pnames or k.arg in bound:
                raise Fail(f'keyword argument {k.arg} in the call of {name}')
            bound[k.arg] = k.value
        for pn, d in zip(pnames, defaults):
            if pn not in bound:
                if d is None:
                    raise Fail(f'missing argument {pn} in the call of {name}')
                bound[pn] = d
        if not (isinstance(bound[pnames[0]], ast.Name) and bound[pnames[0]].id == self.frame):
            raise Fail(f'{name} is not called on the frame')
        if not (isinstance(bound['config'], ast.Name) and bound['config'].id == 'config'):
            raise Fail(f'{name}: config argument')
        pos = bound['position']
        if not (isinstance(pos, ast.Constant) and isinstance(pos.value, str)):
            raise Fail(f'{name}: the position argument is not a string constant')
        tgt = self.col(pos, create=True)
        self.pending = []
        if name == '_materialize_template':
            args = [self.expr(bound[k]) for k in ['template', 'expression_type', 'position', 'columns_alias', 'termtype', 'datatype']]
            rhs = 'materialize_template prims row ' + ' '.join(args)
        else:
            if 'fnml_df' not in bound or 'fnml_execution' not in bound:
                raise Fail(f'{name}: parameters')
            args = [self.expr(bound[k]) for k in ['fnml_execution', 'position', 'termtype', 'datatype']]
            rhs = 'prims.fnml row ' + ' '.join(args)
        if self.pending:
            raise Fail('row lookup in call arguments')
        return [f'{ind}let {tgt} ← {rhs}'], True

    def stmt(self, st, ind):
        if isinstance(st, ast.Assign) and isinstance(st.targets[0], ast.Name) and st.targets[0].id == self.frame \
                and isinstance(st.value, ast.Call) and isinstance(st.value.func, ast.Name) and st.value.func.id in self.sigs:
            return self.frame_call(st, ind)
        if isinstance(st, ast.AugAssign):
            return [f'{ind}let {self.v(st.target.id)} := ({self.v(st.target.id)} + {self.expr(st.value)})'], False
        if isinstance(st, ast.Assign) and isinstance(st.targets[0], ast.Name) and st.targets[0].id in self.rules2:
            want = self.rules2_binding.get(st.targets[0].id)
            if want is None or ast.unparse(st.value) != want:
                raise Fail(f'binding of {st.targets[0].id}: {ast.unparse(st.value)[:60]}')
            return [], False
        if isinstance(st, ast.Assign):
            self.pending = []
            rhs = self.expr(st.value)
            if self.at_col(st.targets[0]) is not None:
                self.at_written.add(self.at_col(st.targets[0]))
            pre = [f'{ind}let {n} ← {k}' for n, k in self.pending]
            m = bool(self.pending)
            self.pending = []
            return pre + [f'{ind}let {self.target(st.targets[0])} := {rhs}'], m
        if isinstance(st, ast.If):
            self.pending = []
            c = self.cond(st.test)
            if self.pending:
                raise Fail('row lookup inside a condition')
            w0 = set(self.at_written)
            tl, tm, tr = self.block(st.body, ind + '    ')
            w1 = set(self.at_written)
            self.at_written = set(w0)
            el, em, er = self.block(st.orelse, ind + '    ')
            self.at_written |= w1
            ms = self.mods([st])
            monadic = tm or em
            if not ms:
                if not monadic:
                    return [], False            # `if c: pass`
                t = tl if tr else tl + [f'{ind}    pure ()']
                e = el if er else el + [f'{ind}    pure ()']
                return [f'{ind}if {c} then do'] + t + [f'{ind}else do'] + e, True
            tp = self.tup(ms)
            if monadic:
                t = tl if tr else tl + [f'{ind}    pure {tp}']
                e = el if er else el + [f'{ind}    pure {tp}']
                e[-1] += ')'      # a parenthesised TERM-level `if`: no join point, the continuation is not copied into the branches
                return [f'{ind}let {tp} ← (', f'{ind}  if {c} then do'] + t + [f'{ind}  else do'] + e, True
            return [f'{ind}let {tp} :=', f'{ind}  if {c} then'] + tl + [f'{ind}    {tp}', f'{ind}  else'] + el + [f'{ind}    {tp}'], False
        if isinstance(st, ast.For):
            if not isinstance(st.target, ast.Name) or st.orelse:
                raise Fail('for-loop shape')
            if self.monad is None:
                raise Fail('for-loop in a function translated as pure')
            x = st.target.id
            self.types[x] = 'str'
            self.pending = []
            it = self.expr(st.iter)
            if self.pending:
                raise Fail('row lookup in a loop header')
            ms = self.mods(st.body)
            if not ms:
                raise Fail('for-loop without state')
            bl, _, br = self.block(st.body, '  ')
            if br:
                raise Fail('loop body ends in raise')
            k = len(self.helpers) // 2
            ro = [(n, t) for n, t in self.param_binders + self.decl if n not in ms]
            rob = ' '.join(f'({n} : {LEAN_TY[t]})' for n, t in ro)
            roa = ' '.join(n for n, _ in ro)
            d = dict(self.decl)
            stb = ' '.join(f'({n} : {LEAN_TY[d[n]]})' for n in ms)
            sty = self.tupty(ms)
            M = self.monad
            tp = self.tup(ms)
            self.helpers.append(
                f'/-- body of the `for {x} in …` loop of `{self.name}` (state: {", ".join(ms)}) -/\n'
                f'def {self.name}.body{k} {self.extra} {rob} ({self.v(x)} : Str) {stb} : {M} ({sty}) := do\n'
                + '\n'.join(bl) + f'\n  pure {tp}')
            self.helpers.append(
                f'def {self.name}.loop{k} {self.extra} {rob} : List Str → {sty} → {M} ({sty})\n'
                f'  | [], s => pure s\n'
                f'  | x :: xs, {tp} => do\n'
                f'    let s ← {self.name}.body{k} {self.extra_args} {roa} x {" ".join(ms)}\n'
                f'    {self.name}.loop{k} {self.extra_args} {roa} xs s')
            return [f'{ind}let {tp} ← {self.name}.loop{k} {self.extra_args} {roa} {it} {tp}'], True
        if isinstance(st, ast.Pass):
            return [], False
        if isinstance(st, ast.Expr) and isinstance(st.value, ast.Constant):
            return [], False
        raise Fail(f'statement {ast.unparse(st)[:60]}')


LEAN_TY = {'str': 'Str', 'list': 'List Str', 'nat': 'Nat', 'rule': 'PyRule', 'bool': 'Bool'}
DEFAULT = {'str': '[]', 'list': '[]', 'nat': '0', 'bool': 'false'}


def translate(fn, env, name, params, monad=None, frame=None, translated=(), ret_col=None, extra=None, raise_as=None, rty='Str',
              body=None, rule=None, input_cols=None, sigs=None, ret_cols=None, doc_extra=''):
    """params: [(python name, type)] in Lean binder order; monad: None (pure), 'Option' or 'Except Model.MatErr';
       extra: [(binder text, argument text)] prepended to the parameters (and passed to the loop helpers)"""
    tr = Tr(env, params, frame=frame, translated=translated)
    tr.name, tr.monad, tr.raise_as, tr.helpers, tr.pending = name, monad, raise_as, [], []
    tr.extra = ' '.join(b for b, _ in (extra or []))
    tr.extra_args = ' '.join(a for _, a in (extra or []))
    tr.param_binders = [(tr.v(p) if t != 'rule' else 'rule', t) for p, t in params]
    tr.rule, tr.sigs = rule, sigs or {}
    tr.input_cols = {c: 'i_' + c for c in (input_cols or [])}
    if body is not None:
        body = body + [ast.Return(value=ast.Name(id=frame))]
    else:
        body = strip_doc(fn.body)
    if not body or not isinstance(body[-1], ast.Return):
        raise Fail('the function does not end in a return statement')
    if any(isinstance(n, ast.Return) for st in body[:-1] for n in ast.walk(st)):
        raise Fail('return before the end of the function')
    decl = tr.declare(body[:-1])
    pnames = {tr.v(p) for p, _ in params}
    lines = [f'  let {n} : {LEAN_TY[t]} := {DEFAULT[t]}' for n, t in decl if n not in pnames]
    bl, monadic, ends_raise = tr.block(body[:-1], '  ')
    if ends_raise:
        raise Fail('the function body ends in raise')
    lines += bl
    rv = body[-1].value
    if frame and isinstance(rv, ast.Name) and rv.id == frame and ret_cols:
        cs = []
        for rc in ret_cols:
            c = tr.cols.get(repr(rc))
            if c is None:
                raise Fail(f'column {rc} is never assigned')
            cs.append(c)
        r = '(' + ', '.join(cs) + ')'
    elif frame and isinstance(rv, ast.Name) and rv.id == frame:
        c = tr.cols.get(ret_col)
        if c is None:
            raise Fail(f'the function returns the frame but never assigns column {ret_col}')
        r = c
    else:
        tr.pending = []
        r = tr.expr(rv)
        if tr.pending:
            raise Fail('row lookup in the return expression')
    binders = ' '.join(f'({n} : {LEAN_TY[t]})' for n, t in tr.param_binders + [(v, 'str') for v in tr.input_cols.values()])
    if monad is None:
        head = f'def {name} {tr.extra} {binders} : {rty} :='
        lines.append(f'  {r}')
    else:
        head = f'def {name} {tr.extra} {binders} : {monad} ({rty}) := do'
        lines.append(f'  pure {r}')
    doc = f'/-- translation of `{fn.name}`' + (' (row-wise: the cell of column `' + ret_col + '` for one row)' if frame and ret_col and not doc_extra else '') + (f'; `raise` is `{raise_as}`' if raise_as else '') + doc_extra + ' -/\n'
    return '\n\n'.join(tr.helpers + [doc + '\n'.join([head] + lines)]), tr


def py_params(fn):
    a = fn.args
    names = [x.arg for x in a.args]
    defaults = [None] * (len(names) - len(a.defaults)) + list(a.defaults)
    return names, defaults


def specialise_refs(fn, only_subject):
    """`_get_references_in_rml_rule` for a fixed value of `only_subject_map`: conditional position lists evaluated, the loops over
    them unrolled (f-strings of the loop variable folded into constants), list mutation written as assignment, the calls that leave
    the function (function executions, quoted triples maps, join conditions) replaced by parameters"""
    import copy

    class Subst(ast.NodeTransformer):
        def __init__(self, name, value):
            self.name, self.value = name, value

        def visit_Name(self, n):
            return ast.Constant(value=self.value) if n.id == self.name else n

        def visit_JoinedStr(self, n):
            self.generic_visit(n)
            parts = []
            for p in n.values:
                if isinstance(p, ast.Constant):
                    parts.append(p.value)
                elif isinstance(p, ast.FormattedValue) and isinstance(p.value, ast.Constant) and p.conversion == -1 and p.format_spec is None:
                    parts.append(str(p.value.value))
                else:
                    return n
            return ast.Constant(value=''.join(parts))

    out = []
    consts = {}
    for st in strip_doc(fn.body):
        if isinstance(st, ast.Assign) and len(st.targets) == 1 and isinstance(st.targets[0], ast.Name) and isinstance(st.value, ast.IfExp) \
                and ast.unparse(st.value.test) == 'only_subject_map':
            v = st.value.body if only_subject else st.value.orelse
            if not (isinstance(v, ast.List) and all(isinstance(x, ast.Constant) and isinstance(x.value, str) for x in v.elts)):
                raise Fail(f'position list {ast.unparse(v)[:60]}')
            consts[st.targets[0].id] = [x.value for x in v.elts]
            continue
        if isinstance(st, ast.For) and isinstance(st.iter, ast.Name) and st.iter.id in consts and isinstance(st.target, ast.Name) and not st.orelse:
            for val in consts[st.iter.id]:
                for b in st.body:
                    out.append(Subst(st.target.id, val).visit(copy.deepcopy(b)))
            continue
        out.append(copy.deepcopy(st))

    def rewrite(stmts):
        res = []
        i = 0
        while i < len(stmts):
            st = stmts[i]
            if isinstance(st, ast.If):
                st.body, st.orelse = rewrite(st.body), rewrite(st.orelse)
                res.append(st)
            elif isinstance(st, ast.Expr) and isinstance(st.value, ast.Call) and isinstance(st.value.func, ast.Attribute) \
                    and isinstance(st.value.func.value, ast.Name) and st.value.func.attr in ('extend', 'append') and len(st.value.args) == 1:
                tgt, arg = st.value.func.value.id, st.value.args[0]
                u = ast.unparse(arg)
                if isinstance(arg, ast.Call) and ast.unparse(arg.func) == 'get_references_in_fnml_execution' and len(arg.args) == 2 \
                        and ast.unparse(arg.args[0]) == 'fnml_df':
                    arg = ast.Call(func=ast.Name(id='_fnml_refs'), args=[arg.args[1]], keywords=[])
                elif u == '_get_references_in_rml_rule(parent_rml_rule, rml_df, fnml_df)':
                    prev = res[-1] if res else None
                    if not (isinstance(prev, ast.Assign) and ast.unparse(prev.targets[0]) == 'parent_rml_rule' and isinstance(prev.value, ast.Call)
                            and ast.unparse(prev.value.func) == 'get_rml_rule' and len(prev.value.args) == 2 and ast.unparse(prev.value.args[0]) == 'rml_df'):
                        raise Fail('the recursive call is not preceded by `parent_rml_rule = get_rml_rule(rml_df, …)`')
                    res.pop()
                    arg = ast.Call(func=ast.Name(id='_quoted_refs'), args=[prev.value.args[1]], keywords=[])
                rhs = arg if st.value.func.attr == 'extend' else ast.List(elts=[arg])
                res.append(ast.Assign(targets=[ast.Name(id=tgt)], value=ast.BinOp(left=ast.Name(id=tgt), op=ast.Add(), right=rhs)))
            elif isinstance(st, ast.Assign) and len(st.targets) == 1 and isinstance(st.targets[0], ast.Tuple) and len(st.targets[0].elts) == 2 \
                    and isinstance(st.value, ast.Call) and ast.unparse(st.value.func) == 'get_references_in_join_condition' \
                    and len(st.value.args) == 2 and ast.unparse(st.value.args[0]) == 'rml_rule':
                a, b = st.targets[0].elts
                res.append(ast.Assign(targets=[a], value=ast.Call(func=ast.Name(id='_join_child_refs'), args=[st.value.args[1]], keywords=[])))
                res.append(ast.Assign(targets=[b], value=ast.Call(func=ast.Name(id='_join_parent_refs'), args=[st.value.args[1]], keywords=[])))
            else:
                res.append(st)
            i += 1
        return res
    out = rewrite(out)
    for st in out:
        ast.fix_missing_locations(st)
    return out


def generate(src, env, out, summary):
    USED_CONSTS.clear()
    RULE_FIELDS.clear()
    failures = []
    defs = []
    info = {}

    # 1. utils.get_references_in_template
    try:
        fn = src.func('utils.py', 'get_references_in_template')
        names, _ = py_params(fn)
        if names != ['template']:
            raise Fail(f'parameters {names}')
        d, _ = translate(fn, env, 'get_references_in_template', [('template', 'str')], rty='List Str')
        defs.append(d)
        info['get_references_in_template'] = 'translated'
    except (Fail, KeyError) as e:
        failures.append(f'get_references_in_template: {e}')

    # 2. mapping_partitioner.get_invariant_of_template  (the exception is `none`)
    try:
        fn = src.func('mapping/mapping_partitioner.py', 'get_invariant_of_template')
        names, _ = py_params(fn)
        if names != ['template']:
            raise Fail(f'parameters {names}')
        d, _ = translate(fn, env, 'get_invariant_of_template', [('template', 'str')], monad='Option', raise_as='none')
        defs.append(d)
        info['get_invariant_of_template'] = 'translated'
    except (Fail, KeyError) as e:
        failures.append(f'get_invariant_of_template: {e}')

    # 3. materializer._materialize_template, row-wise
    try:
        fn = src.func('materializer.py', '_materialize_template')
        names, defaults = py_params(fn)
        want = ['results_df', 'template', 'expression_type', 'config', 'position', 'columns_alias', 'termtype', 'datatype']
        if names != want:
            raise Fail(f'parameters {names}')
        dv = [ast.unparse(d) if d is not None else None for d in defaults]
        if dv != [None, None, None, None, None, "''", "''", "''"]:
            raise Fail(f'parameter defaults {dv}')
        params = [('template', 'str'), ('expression_type', 'str'), ('position', 'str'), ('columns_alias', 'str'),
                  ('termtype', 'str'), ('datatype', 'str')]
        d, tr = translate(fn, env, 'materialize_template', params, monad='Except Model.MatErr', frame='results_df',
                          translated=('get_references_in_template',), ret_col='position',
                          extra=[('(prims : Prims)', 'prims'), ('(row : Str → Option Str)', 'row')])
        defs.append(d)
        info['materialize_template'] = 'translated'
        info['materialize_template_columns'] = sorted(tr.cols)
    except (Fail, KeyError) as e:
        failures.append(f'_materialize_template: {e}')

    # 4. materializer._materialize_rml_rule_terms, row-wise: the cells of the columns subject, predicate, object
    sigs = {}
    try:
        for callee in ['_materialize_template', '_materialize_fnml_execution']:
            sigs[callee] = py_params(src.func('materializer.py', callee))
        if sigs['_materialize_fnml_execution'][0] != ['results_df', 'fnml_execution', 'fnml_df', 'config', 'position', 'termtype', 'datatype']:
            raise Fail(f"_materialize_fnml_execution parameters {sigs['_materialize_fnml_execution'][0]}")
        fn = src.func('materializer.py', '_materialize_rml_rule_terms')
        names, defaults = py_params(fn)
        if names != ['results_df', 'rml_rule', 'fnml_df', 'config', 'columns_alias'] or [ast.unparse(d) if d else None for d in defaults] != [None] * 4 + ["''"]:
            raise Fail(f'parameters {names}')
        d, tr = translate(fn, env, 'materialize_rml_rule_terms', [('rml_rule', 'rule'), ('columns_alias', 'str')],
                          monad='Except Model.MatErr', frame='results_df', translated=(), rule='rml_rule', sigs=sigs,
                          ret_cols=['subject', 'predicate', 'object'], rty='Str × Str × Str',
                          extra=[('(prims : Prims)', 'prims'), ('(row : Str → Option Str)', 'row')],
                          doc_extra=' (row-wise: the cells of the columns subject, predicate, object)')
        defs.append(d)
        info['materialize_rml_rule_terms'] = 'translated'
    except (Fail, KeyError) as e:
        failures.append(f'_materialize_rml_rule_terms: {e}')

    # 5. the statements of materializer._materialize_rml_rule after the branch on the kind of rule: triple assembly and graph term
    try:
        fn = src.func('materializer.py', '_materialize_rml_rule')
        names, _ = py_params(fn)
        for need in ['rml_rule', 'config', 'nest_level']:
            if need not in names:
                raise Fail(f'_materialize_rml_rule has no parameter {need}')
        body = strip_doc(fn.body)
        start = [i for i, st in enumerate(body) if isinstance(st, ast.Assign) and ast.unparse(st.targets[0]) == "data['triple']"]
        stop = [i for i, st in enumerate(body) if isinstance(st, ast.Assign) and ast.unparse(st.targets[0]) == 'data'
                and isinstance(st.value, ast.Call) and isinstance(st.value.func, ast.Attribute) and st.value.func.attr == 'drop']
        if len(start) != 1 or len(stop) != 1 or not start[0] < stop[0] or stop[0] != len(body) - 2 or not isinstance(body[-1], ast.Return) \
                or ast.unparse(body[-1].value) != 'data':
            raise Fail('shape of the end of _materialize_rml_rule (data[triple] = … ; … ; data = data.drop(…); return data)')
        if not isinstance(body[start[0] - 1], ast.If):
            raise Fail('the triple assembly does not directly follow the branch on the kind of rule')
        seg = body[start[0]:stop[0]]
        d, tr = translate(fn, env, 'assemble_triple', [('rml_rule', 'rule'), ('nest_level', 'nat')],
                          monad='Except Model.MatErr', frame='data', rule='rml_rule', sigs=sigs, body=seg,
                          input_cols=['subject', 'predicate', 'object'], ret_col="'triple'",
                          extra=[('(prims : Prims)', 'prims'), ('(row : Str → Option Str)', 'row')],
                          doc_extra=': its last statements, from `data[\'triple\'] = …` to the graph term (row-wise: the cell of column triple, given '
                                    'the cells of subject, predicate, object)')
        defs.append(d)
        info['assemble_triple'] = 'translated'
    except (Fail, KeyError) as e:
        failures.append(f'_materialize_rml_rule (triple assembly): {e}')

    # 6. materializer._get_references_in_rml_rule: the loops over the constant position lists are unrolled, once per value of only_subject_map
    try:
        fn = src.func('materializer.py', '_get_references_in_rml_rule')
        names, defaults = py_params(fn)
        if names != ['rml_rule', 'rml_df', 'fnml_df', 'only_subject_map'] or ast.unparse(defaults[-1]) != 'False':
            raise Fail(f'parameters {names}')
        for flag in (True, False):
            body = specialise_refs(fn, flag)
            fake = ast.FunctionDef(name=fn.name, args=fn.args, body=body, decorator_list=[], lineno=0)
            nm = 'get_references_in_rml_rule_' + ('subject' if flag else 'all')
            d, tr = translate(fake, env, nm, [('rml_rule', 'rule')], rule='rml_rule', translated=('get_references_in_template',),
                              extra=[('(prims : Prims)', 'prims')], rty='List Str',
                              doc_extra=f' with `only_subject_map={flag}`: the loops over the constant position lists unrolled')
            defs.append(d)
        info['get_references_in_rml_rule'] = 'translated'
    except (Fail, KeyError) as e:
        failures.append(f'_get_references_in_rml_rule: {e}')

    consts = []
    for k in ['RML_REFERENCE', 'RML_TEMPLATE', 'RML_CONSTANT', 'RML_IRI', 'RML_LITERAL', 'RML_BLANK_NODE', 'XSD_BOOLEAN', 'XSD_DATETIME',
              'XSD_INTEGER', 'AUXILIAR_UNIQUE_REPLACING_STRING', 'RML_EXECUTION', 'RML_LANGUAGE_MAP', 'RML_DATATYPE_MAP', 'RML_DEFAULT_GRAPH', 'NQUADS']:
        if isinstance(env.get(k), str):
            USED_CONSTS.setdefault(k, env[k])
        else:
            failures.append(f'constant {k} missing')
    for k in sorted(USED_CONSTS):
        consts.append(f'def {k} : Str := {lean_str(USED_CONSTS[k])}')

    ok = not failures
    rule_struct = '\n'.join(f'  {f} : ' + ('Bool := true' if RULE_FIELDS[f] == 'bool' else 'Str := []') for f in sorted(RULE_FIELDS)) or '  unused : Unit := ()'
    text = HEADER + f'''
import MorphKgc.Model.Term
import MorphKgc.Model.Canon

set_option linter.unusedVariables false

namespace Gen.Core
open Py

/-- library behaviour the translated code calls and the model treats as parameters -/
structure Prims where
  /-- `config.only_write_printable_characters()` -/
  onlyPrintable : Bool
  /-- `config.get_safe_percent_encoding()` -/
  safe : Str
  /-- `utils.remove_non_printable_characters` (`str.isprintable` is the Unicode database's) -/
  removeNonPrintable : Str → Str
  /-- `config.get_output_format()` -/
  outputFormat : Str
  /-- `_materialize_fnml_execution(df, execution, fnml_df, config, position, termtype, datatype)` row-wise (C14's domain: a parameter here) -/
  fnml : (Str → Option Str) → Str → Str → Str → Str → Except Model.MatErr Str
  /-- `get_references_in_fnml_execution(fnml_df, execution)` -/
  fnmlRefs : Str → List Str
  /-- `_get_references_in_rml_rule(get_rml_rule(rml_df, <quoted triples map>), rml_df, fnml_df)` (C13's domain) -/
  quotedRefs : Str → List Str
  /-- first / second component of `get_references_in_join_condition(rml_rule, <column>)` -/
  joinChildRefs : Str → List Str
  joinParentRefs : Str → List Str

/-- one row of `rml_df` as the translated code reads it: `rml_rule['<field>']` -/
structure PyRule where
{rule_struct}

/-- `results_df[name]` for a column the function does not assign: the cell of the input row (a missing column is the KeyError) -/
def rowGet (row : Str → Option Str) (k : Str) : Except Model.MatErr Str :=
  match row k with
  | some v => .ok v
  | none => .error (.keyError k)

/-! values of morph_kgc.constants used below -/
{chr(10).join(consts)}

{(chr(10) * 2).join(defs) if ok else '-- translation failed: ' + ' | '.join(failures).replace(chr(10), ' ')}

def coreTranslated : Bool := {'true' if ok else 'false'}

end Gen.Core
'''
    write_if_changed(os.path.join(out, 'CoreFuncs.lean'), text)
    summary['core'] = {'failures': failures, **info}
