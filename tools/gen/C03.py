"""C03: how a mapping group accumulates its statements before they are written / returned (materializer.py) -> Gen/GroupSet.lean

For each of `_materialize_mapping_group_to_set` and `_materialize_mapping_group_to_file` the translator recognises the shape

    triples = set()
    for i, rml_rule in mapping_group_df.iterrows():
        [start_time = time.time()]
        data = _materialize_rml_rule(...)
        triples.update(set(data['triple']))          # unconditionally, the only statement that touches `triples`
        [logging.debug(...)]
    <sink>(triples, ...)  /  return triples           # and `return len(triples)` for the file variant

i.e. the group result is a Python set: a statement produced by several rows or several rules of the group is kept once, and
the reported count is the number of distinct statements.  Anything else (a list, a conditional update, a second accumulator) is a
translation failure: `Model.evalGroup` (per-group `dedupFirst`) is then not known to describe the code.
"""
import ast
import os

from extract import HEADER, write_if_changed


def _norm(node):
    return ' '.join(ast.unparse(node).split())


def _shape(fn, sink):
    """returns (accumulator kind, list of problems)"""
    body = [st for st in fn.body if not (isinstance(st, ast.Expr) and isinstance(st.value, ast.Constant))]
    problems = []
    if not body or _norm(body[0]) != 'triples = set()':
        problems.append('first statement is not `triples = set()`')
    loops = [st for st in body if isinstance(st, ast.For)]
    if len(loops) != 1 or _norm(loops[0].iter) != 'mapping_group_df.iterrows()':
        problems.append('not exactly one loop over mapping_group_df.iterrows()')
    else:
        touching = []
        for st in loops[0].body:
            text = _norm(st)
            if isinstance(st, ast.Assign) and text.startswith('start_time = '):
                continue
            if isinstance(st, ast.Assign) and text.startswith('data = _materialize_rml_rule('):
                continue
            if isinstance(st, ast.Expr) and text.startswith('logging.'):
                continue
            touching.append(text)
        if touching != ["triples.update(set(data['triple']))"]:
            problems.append('loop body is not the unconditional `triples.update(set(data[\'triple\']))`: ' + ' | '.join(touching)[:200])
    rest = [st for st in body[1:] if not isinstance(st, ast.For)]
    texts = [_norm(st) for st in rest]
    if sink is None:
        if texts != ['return triples']:
            problems.append('tail is not `return triples`: ' + ' | '.join(texts)[:200])
    else:
        ok = len(texts) == 2 and texts[0].startswith(sink + '(triples, ') and texts[1] == 'return len(triples)'
        if not ok:
            problems.append(f'tail is not `{sink}(triples, ...)` followed by `return len(triples)`: ' + ' | '.join(texts)[:200])
    for st in ast.walk(fn):
        if isinstance(st, ast.Assign) and any(isinstance(t, ast.Name) and t.id == 'triples' for t in st.targets) and _norm(st) != 'triples = set()':
            problems.append('`triples` is re-assigned: ' + _norm(st)[:120])
    return ('pySet' if not problems else 'unknown'), problems


def generate(src, env, out, summary):
    rel = 'materializer.py'
    failures = []
    kinds = {}
    for name, sink in (('_materialize_mapping_group_to_set', None), ('_materialize_mapping_group_to_file', 'triples_to_file')):
        try:
            k, probs = _shape(src.func(rel, name), sink)
        except Exception as e:
            k, probs = 'unknown', [repr(e)]
        kinds[name] = k
        failures += [f'{name}: {p}' for p in probs]
    text = HEADER + f'''namespace Gen

/-- how a mapping group accumulates statements: a Python `set` updated unconditionally with every rule's statements -/
inductive GroupAcc | pySet | unknown
  deriving DecidableEq, Repr

def groupAccToSet : GroupAcc := .{kinds['_materialize_mapping_group_to_set']}
def groupAccToFile : GroupAcc := .{kinds['_materialize_mapping_group_to_file']}
/-- the file variant reports `len(triples)` of that set -/
def groupSetTranslated : Bool := {'true' if not failures else 'false'}

end Gen
'''
    write_if_changed(os.path.join(out, 'GroupSet.lean'), text)
    summary['group_set'] = {'kinds': kinds, 'failures': failures}
