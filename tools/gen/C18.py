"""C18: the two loading entry points of __init__.py (materialize, materialize_oxigraph) -> Gen/Loader.lean

Recognised shape (anything else is a translation failure, never guessed):

    def <name>(config, python_source=None):
        triples = materialize_set(config, python_source)          # exactly the function's own parameters, in order
        graph = <Target>()                                         # Graph / Store
        if triples:                                                # the guard (or no guard at all)
            rdf_ntriples = <sep literal>.join(triples) + <term literal>
            graph.parse(data=rdf_ntriples, format=<fmt literal>)   # rdflib
            graph.bulk_load(BytesIO(rdf_ntriples.encode()), <fmt literal>)   # pyoxigraph
        return graph
"""
import ast
import os

from extract import HEADER, lean_str, write_if_changed

REL = '__init__.py'
EXPECT_TARGET = {'materialize': 'Graph', 'materialize_oxigraph': 'Store'}
LEAN_NAME = {'materialize': 'loaderRdflib', 'materialize_oxigraph': 'loaderOxigraph'}


def _is_name(n, ident=None):
    return isinstance(n, ast.Name) and (ident is None or n.id == ident)


def _str_const(n):
    return n.value if isinstance(n, ast.Constant) and isinstance(n.value, str) else None


def analyse(fn, imports):
    """-> (shape dict, failures)"""
    fl = []
    shape = {'sep': None, 'term': None, 'guard': None, 'format': None, 'same_args': False, 'target': None,
             'input_call': None, 'params': None}
    a = fn.args
    params = [x.arg for x in a.posonlyargs + a.args]
    shape['params'] = params
    if a.vararg or a.kwarg or a.kwonlyargs:
        fl.append('unexpected *args/**kwargs/keyword-only parameters')
    body = [st for st in fn.body if not (isinstance(st, ast.Expr) and isinstance(st.value, ast.Constant))]
    if len(body) != 4:
        fl.append(f'expected 4 statements (set, target, guarded load, return), found {len(body)}: '
                  + ' | '.join(ast.unparse(s).split('\n')[0] for s in body)[:300])
        return shape, fl
    s_set, s_target, s_load, s_ret = body

    # 1. triples = materialize_set(<own parameters>)
    setvar = None
    if isinstance(s_set, ast.Assign) and len(s_set.targets) == 1 and _is_name(s_set.targets[0]) and isinstance(s_set.value, ast.Call):
        setvar = s_set.targets[0].id
        call = s_set.value
        shape['input_call'] = ast.unparse(call)
        if not _is_name(call.func, 'materialize_set'):
            fl.append('the set does not come from materialize_set(...): ' + ast.unparse(call)[:200])
        pos = [x.id if _is_name(x) else None for x in call.args]
        kws = {k.arg: (k.value.id if _is_name(k.value) else None) for k in call.keywords}
        ok = (not call.keywords and pos == params) or \
             (pos == params[:len(pos)] and all(k in params[len(pos):] and v == k for k, v in kws.items())
              and len(pos) + len(kws) == len(params))
        if params != ['config', 'python_source']:
            fl.append(f'parameters are {params}, expected [config, python_source]')
        if not ok:
            fl.append('materialize_set is not called with exactly the parameters of the entry point: ' + ast.unparse(call)[:200])
        shape['same_args'] = ok and _is_name(call.func, 'materialize_set') and params == ['config', 'python_source']
    else:
        fl.append('first statement is not `<var> = materialize_set(...)`: ' + ast.unparse(s_set)[:200])

    # 2. graph = Target()
    tvar = None
    if isinstance(s_target, ast.Assign) and len(s_target.targets) == 1 and _is_name(s_target.targets[0]) \
            and isinstance(s_target.value, ast.Call) and _is_name(s_target.value.func) \
            and not s_target.value.args and not s_target.value.keywords:
        tvar = s_target.targets[0].id
        shape['target'] = s_target.value.func.id
        want = EXPECT_TARGET[fn.name]
        if shape['target'] != want:
            fl.append(f'target object is {shape["target"]}(), expected {want}()')
        elif imports.get(want) != {'Graph': 'rdflib', 'Store': 'pyoxigraph'}[want]:
            fl.append(f'{want} is not imported from {({"Graph": "rdflib", "Store": "pyoxigraph"})[want]} (found {imports.get(want)})')
    else:
        fl.append('second statement is not `<var> = <Target>()`: ' + ast.unparse(s_target)[:200])

    # 3. guard + join + load
    inner = None
    if isinstance(s_load, ast.If) and not s_load.orelse:
        if _is_name(s_load.test) and s_load.test.id == setvar:
            shape['guard'] = 'truthy'
        else:
            fl.append('unrecognised guard: `if ' + ast.unparse(s_load.test)[:200] + ':`')
        inner = s_load.body
    elif isinstance(s_load, ast.If):
        fl.append('guard has an else branch')
    else:
        fl.append('third statement is not the guarded load: ' + ast.unparse(s_load).split('\n')[0][:200])
    if inner is not None:
        if len(inner) != 2:
            fl.append(f'guarded block has {len(inner)} statements, expected 2 (join, load)')
        else:
            s_join, s_parse = inner
            textvar = None
            # rdf_ntriples = SEP.join(triples) + TERM
            v = s_join.value if isinstance(s_join, ast.Assign) and len(s_join.targets) == 1 and _is_name(s_join.targets[0]) else None
            if v is not None:
                textvar = s_join.targets[0].id
            join_call, term = None, ''
            if isinstance(v, ast.BinOp) and isinstance(v.op, ast.Add) and _str_const(v.right) is not None:
                join_call, term = v.left, _str_const(v.right)
            elif isinstance(v, ast.Call):
                join_call, term = v, ''
            if isinstance(join_call, ast.Call) and isinstance(join_call.func, ast.Attribute) and join_call.func.attr == 'join' \
                    and _str_const(join_call.func.value) is not None and len(join_call.args) == 1 and not join_call.keywords \
                    and _is_name(join_call.args[0], setvar):
                shape['sep'] = _str_const(join_call.func.value)
                shape['term'] = term
            else:
                fl.append('text is not `<sep literal>.join(<the set>) + <terminator literal>`: ' + ast.unparse(s_join)[:200])
            # the load call
            c = s_parse.value if isinstance(s_parse, ast.Expr) and isinstance(s_parse.value, ast.Call) else None
            if c is None or not (isinstance(c.func, ast.Attribute) and _is_name(c.func.value, tvar)):
                fl.append('load statement is not a method call on the target object: ' + ast.unparse(s_parse)[:200])
            elif fn.name == 'materialize':
                kw = {k.arg: k.value for k in c.keywords}
                if c.func.attr == 'parse' and not c.args and set(kw) == {'data', 'format'} and _is_name(kw['data'], textvar) \
                        and _str_const(kw['format']) is not None:
                    shape['format'] = _str_const(kw['format'])
                else:
                    fl.append('unrecognised rdflib load call: ' + ast.unparse(c)[:200])
            else:
                okdata = False
                if c.func.attr == 'bulk_load' and len(c.args) == 2 and not c.keywords:
                    d = c.args[0]
                    # BytesIO(text.encode())   (utf-8 default) or .encode('utf-8')
                    if isinstance(d, ast.Call) and _is_name(d.func, 'BytesIO') and len(d.args) == 1 and not d.keywords:
                        e = d.args[0]
                        if isinstance(e, ast.Call) and isinstance(e.func, ast.Attribute) and e.func.attr == 'encode' \
                                and _is_name(e.func.value, textvar) and not e.keywords \
                                and (not e.args or (len(e.args) == 1 and (_str_const(e.args[0]) or '').lower().replace('-', '') == 'utf8')):
                            okdata = imports.get('BytesIO') == 'io'
                    if okdata and _str_const(c.args[1]) is not None:
                        shape['format'] = _str_const(c.args[1])
                if shape['format'] is None:
                    fl.append('unrecognised pyoxigraph load call: ' + ast.unparse(c)[:200])

    # 4. return graph
    if not (isinstance(s_ret, ast.Return) and _is_name(s_ret.value, tvar)):
        fl.append('does not return the target object: ' + ast.unparse(s_ret)[:200])
    return shape, fl


def lean_shape(name, sh, ok):
    g = {'truthy': '.truthy', 'always': '.always'}.get(sh['guard'], '.always')
    return (f'def {name} : Model.LoaderShape :=\n'
            f'  {{ sep := {lean_str(sh["sep"] or "")}, term := {lean_str(sh["term"] or "")}, guard := {g},\n'
            f'    format := {lean_str(sh["format"] or "")}, sameArgs := {"true" if sh["same_args"] else "false"},\n'
            f'    target := {lean_str(sh["target"] or "")} }}\n')


def generate(src, env, out, summary):
    failures = []
    shapes = {}
    imports = {}
    try:
        for n in src.tree(REL).body:
            if isinstance(n, ast.ImportFrom) and n.level == 0:
                for al in n.names:
                    imports[al.asname or al.name] = n.module
    except Exception as e:  # noqa: BLE001
        failures.append(f'cannot parse {REL}: {e!r}')
    for fname in ('materialize', 'materialize_oxigraph'):
        try:
            fn = src.func(REL, fname)
            if fn.decorator_list:
                failures.append(f'{fname}: decorated')
            sh, fl = analyse(fn, imports)
        except KeyError:
            sh, fl = {'sep': None, 'term': None, 'guard': None, 'format': None, 'same_args': False, 'target': None}, ['function not found']
        shapes[fname] = sh
        failures += [f'{fname}: {x}' for x in fl]
    # a later rebinding of the names at module level would make the AST reading meaningless
    try:
        names = [n.name for n in src.tree(REL).body if isinstance(n, ast.FunctionDef)]
        for fname in ('materialize_set', 'materialize', 'materialize_oxigraph'):
            if names.count(fname) != 1:
                failures.append(f'{fname} defined {names.count(fname)} times at module level')
    except Exception:  # noqa: BLE001
        pass

    lines = [HEADER, 'import MorphKgc.Model.Loader', '', 'namespace Gen', 'open Py', '',
             '/-- `materialize` of __init__.py -/',
             lean_shape('loaderRdflib', shapes['materialize'], not failures),
             '/-- `materialize_oxigraph` of __init__.py -/',
             lean_shape('loaderOxigraph', shapes['materialize_oxigraph'], not failures),
             f'def loaderTranslated : Bool := {"true" if not failures else "false"}', '',
             'end Gen', '']
    write_if_changed(os.path.join(out, 'Loader.lean'), '\n'.join(lines))
    summary['loader'] = {'shapes': shapes, 'failures': failures}
