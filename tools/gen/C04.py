"""C04: the writer shape (utils.triples_to_file), the process structure of __main__.py, the worker
(_materialize_mapping_group_to_file) and the result combination of materialize_set -> Gen/Writer.lean

Purely syntactic: every statement of the functions read here must be one of the recognised forms; anything else
is a translation failure (summary['writer']['failures']), and the corresponding flag of the generated shape
is `false` / `.unknown`, so that the side conditions of the C04 theorems no longer `decide`.
"""
import ast
import os

from extract import HEADER, write_if_changed


def lean_char(c):
    if c == '\n':
        return "'\\n'"
    if c == '\t':
        return "'\\t'"
    if 32 <= ord(c) < 127 and c not in "'\\":
        return f"'{c}'"
    return f'Char.ofNat {ord(c)}'


def lean_chars(s):
    return '([] : List Char)' if s == '' else '[' + ', '.join(lean_char(c) for c in s) + ']'


def lean_bool(b):
    return 'true' if b else 'false'


def norm(node):
    return ' '.join(ast.unparse(node).split())


def strip_doc(body):
    if body and isinstance(body[0], ast.Expr) and isinstance(body[0].value, ast.Constant) and isinstance(body[0].value.value, str):
        return body[1:]
    return body


# ----------------------------------------------------------------------------------------------------
# utils.triples_to_file
# ----------------------------------------------------------------------------------------------------

def fmt_pieces(node, var, failures):
    """the argument of f.write(...) as a list of pieces: ('lit', str) | ('triple',)"""
    if isinstance(node, ast.Constant) and isinstance(node.value, str):
        return [('lit', node.value)] if node.value else []
    if isinstance(node, ast.Name) and node.id == var:
        return [('triple',)]
    if isinstance(node, ast.JoinedStr):
        out = []
        for v in node.values:
            if isinstance(v, ast.Constant) and isinstance(v.value, str):
                if v.value:
                    out.append(('lit', v.value))
            elif isinstance(v, ast.FormattedValue) and isinstance(v.value, ast.Name) and v.value.id == var \
                    and v.conversion == -1 and v.format_spec is None:
                out.append(('triple',))
            else:
                failures.append('unrecognised f-string part in f.write: ' + norm(node))
                return None
        return out
    if isinstance(node, ast.BinOp) and isinstance(node.op, ast.Add):
        a = fmt_pieces(node.left, var, failures)
        b = fmt_pieces(node.right, var, failures)
        return None if a is None or b is None else a + b
    failures.append('unrecognised argument of f.write: ' + norm(node))
    return None


def read_writer(src, failures):
    shape = {'mode': None, 'append': False, 'calls': None, 'flush': False, 'fsync': False, 'close': False,
             'lock_created_per_call': False, 'path': None}
    try:
        fn = src.func('utils.py', 'triples_to_file')
    except KeyError:
        failures.append('utils.triples_to_file not found')
        return shape
    if [a.arg for a in fn.args.args] != ['triples', 'config', 'mapping_group']:
        failures.append('triples_to_file: unexpected parameters ' + str([a.arg for a in fn.args.args]))
    body = strip_doc(fn.body)
    # optional `lock = mp.Lock()` + `with lock:` (a lock created per call excludes nobody: it adds nothing)
    if len(body) == 2 and isinstance(body[0], ast.Assign) and norm(body[0]) in ('lock = mp.Lock()', 'lock = multiprocessing.Lock()') \
            and isinstance(body[1], ast.With) and len(body[1].items) == 1 and norm(body[1].items[0].context_expr) == 'lock' \
            and body[1].items[0].optional_vars is None:
        shape['lock_created_per_call'] = True
        body = body[1].body
    fvar = None
    stage = 0          # 0: expect open, 1: expect loop, 2: trailer
    for st in body:
        text = norm(st)
        if stage == 0:
            call = None
            if isinstance(st, ast.Assign) and len(st.targets) == 1 and isinstance(st.targets[0], ast.Name) \
                    and isinstance(st.value, ast.Call) and isinstance(st.value.func, ast.Name) and st.value.func.id == 'open':
                fvar, call = st.targets[0].id, st.value
            if call is None:
                failures.append('triples_to_file: expected `f = open(...)`, found: ' + text[:200])
                return shape
            if len(call.args) != 2 or not (isinstance(call.args[1], ast.Constant) and isinstance(call.args[1].value, str)):
                failures.append('triples_to_file: open() without a literal mode as second argument: ' + text[:200])
                return shape
            shape['mode'] = call.args[1].value
            shape['append'] = call.args[1].value == 'a'
            shape['path'] = norm(call.args[0])
            if shape['path'] != 'config.get_output_file_path(mapping_group)':
                failures.append('triples_to_file: unexpected path expression ' + shape['path'])
            kws = {k.arg: norm(k.value) for k in call.keywords}
            if kws != {'encoding': "'utf-8'"}:
                failures.append('triples_to_file: unexpected keyword arguments of open(): ' + str(kws))
            stage = 1
        elif stage == 1:
            if not (isinstance(st, ast.For) and isinstance(st.target, ast.Name) and norm(st.iter) == 'triples' and not st.orelse):
                failures.append('triples_to_file: expected `for triple in triples:`, found: ' + text[:200])
                return shape
            var = st.target.id
            calls = []
            for w in st.body:
                if isinstance(w, ast.Expr) and isinstance(w.value, ast.Call) and norm(w.value.func) == f'{fvar}.write' \
                        and len(w.value.args) == 1 and not w.value.keywords:
                    ps = fmt_pieces(w.value.args[0], var, failures)
                    if ps is None:
                        return shape
                    calls.append(ps)
                else:
                    failures.append('triples_to_file: unrecognised statement in the loop: ' + norm(w)[:200])
                    return shape
            shape['calls'] = calls
            stage = 2
        else:
            if text == f'{fvar}.flush()':
                shape['flush'] = True
            elif text == f'os.fsync({fvar}.fileno())':
                shape['fsync'] = True
            elif text == f'{fvar}.close()':
                shape['close'] = True
            else:
                failures.append('triples_to_file: unrecognised statement after the loop: ' + text[:200])
    if stage != 2:
        failures.append('triples_to_file: no `for triple in triples:` loop with f.write calls found')
    return shape


# ----------------------------------------------------------------------------------------------------
# __main__.py and the worker
# ----------------------------------------------------------------------------------------------------

GROUPS_STMT = "mapping_groups = [group for _, group in asserted_mapping_df.groupby(by='mapping_partition')]"
POOL_FILE = ('num_triples = sum(pool.starmap(_materialize_mapping_group_to_file, '
             'zip(mapping_groups, repeat(rml_df), repeat(fnml_df), repeat(config))))')
SEQ_FILE = 'num_triples += _materialize_mapping_group_to_file(mapping_group, rml_df, fnml_df, config)'
POOL_NEW = 'pool = mp.Pool(config.get_number_of_processes())'


def read_main(src, failures):
    m = {'prepareBeforeWorkers': False, 'poolStarmapAllGroups': False, 'seqLoopAllGroups': False, 'workerWritesOnce': False}
    tree = src.tree('__main__.py')
    main = None
    for n in tree.body:
        if isinstance(n, ast.If) and norm(n.test) in ("__name__ == '__main__'",):
            main = n
    if main is None:
        failures.append('__main__: `if __name__ == "__main__":` not found')
        return m
    body = main.body
    texts = [norm(s) for s in body]
    n_prep = sum(1 for x in ast.walk(tree) if isinstance(x, ast.Call) and norm(x.func).endswith('prepare_output_files'))
    i_prep = [i for i, t in enumerate(texts) if t == 'prepare_output_files(config, rml_df)']
    i_if = [i for i, s in enumerate(body) if isinstance(s, ast.If) and norm(s.test) == 'config.is_multiprocessing_enabled()']
    i_groups = [i for i, t in enumerate(texts) if t == GROUPS_STMT]
    if len(i_if) != 1:
        failures.append('__main__: expected exactly one top-level `if config.is_multiprocessing_enabled():`')
        return m
    branch = body[i_if[0]]
    # nothing that starts a worker may precede prepare_output_files
    early = [t for s, t in zip(body[:i_if[0]], texts) if any(
        isinstance(x, ast.Call) and (norm(x.func) in ('mp.Pool', 'multiprocessing.Pool', 'mp.Process')
                                     or norm(x.func).startswith('_materialize_')) for x in ast.walk(s))]
    if n_prep == 1 and len(i_prep) == 1 and i_prep[0] < i_if[0] and not early:
        m['prepareBeforeWorkers'] = True
    else:
        failures.append('__main__: `prepare_output_files(config, rml_df)` is not a single top-level statement before the '
                        'multiprocessing branch (calls found: %d, top-level positions %s, branch at %s)' % (n_prep, i_prep, i_if))
    if len(i_groups) != 1 or i_groups[0] > i_if[0]:
        failures.append('__main__: `' + GROUPS_STMT + '` not found before the branch')
    groups_ok = len(i_groups) == 1 and i_groups[0] < i_if[0]
    # rebinding of mapping_groups between its definition and the branch is not recognised
    for s in body[(i_groups[0] + 1 if i_groups else 0):i_if[0]]:
        for x in ast.walk(s):
            if isinstance(x, ast.Name) and x.id == 'mapping_groups':
                failures.append('__main__: mapping_groups is used/rebound before the branch: ' + norm(s)[:160])
                groups_ok = False

    # multi-process branch
    pb = [norm(s) for s in branch.body]
    pool_stmt = None
    for s in branch.body:
        if isinstance(s, ast.If) and norm(s.test) == 'not config.get_output_kafka_server()' and len(s.body) == 1:
            pool_stmt = norm(s.body[0])
    # no statement of the branch may touch mapping_groups before the starmap (re-splitting, filtering, re-ordering the tasks)
    first_if = ([i for i, s in enumerate(branch.body) if isinstance(s, ast.If)] or [len(branch.body)])[0]
    touched = [norm(s)[:120] for s in branch.body[:first_if]
               if any(isinstance(x, ast.Name) and x.id == 'mapping_groups' for x in ast.walk(s))]
    if touched:
        failures.append('__main__: mapping_groups is used/changed inside the multi-process branch before the starmap: ' + ' ; '.join(touched))
    if POOL_NEW in pb and pool_stmt == POOL_FILE and groups_ok and not touched \
            and pb.index(POOL_NEW) < [i for i, s in enumerate(branch.body) if isinstance(s, ast.If)][0]:
        m['poolStarmapAllGroups'] = True
    else:
        failures.append('__main__: multi-process branch is not `' + POOL_NEW + '` followed by `' + POOL_FILE + '`; found: '
                        + ' ; '.join(pb)[:400])
    # single-process branch
    ok = False
    if len(branch.orelse) == 1 and isinstance(branch.orelse[0], ast.For):
        f = branch.orelse[0]
        if norm(f.target) == 'mapping_group' and norm(f.iter) == 'mapping_groups' and not f.orelse and len(f.body) == 1 \
                and isinstance(f.body[0], ast.If) and norm(f.body[0].test) == 'not config.get_output_kafka_server()' \
                and [norm(s) for s in f.body[0].body] == [SEQ_FILE]:
            ok = True
    if ok and groups_ok:
        m['seqLoopAllGroups'] = True
    else:
        failures.append('__main__: single-process branch is not `for mapping_group in mapping_groups: ' + SEQ_FILE + '`')

    # the worker
    try:
        w = src.func('materializer.py', '_materialize_mapping_group_to_file')
        wb = strip_doc(w.body)
        calls = [x for x in ast.walk(w) if isinstance(x, ast.Call) and norm(x.func).endswith('triples_to_file')]
        top = [i for i, s in enumerate(wb) if isinstance(s, ast.Expr) and isinstance(s.value, ast.Call)
               and norm(s.value) == "triples_to_file(triples, config, mapping_group_df.iloc[0]['mapping_partition'])"]
        loops = [i for i, s in enumerate(wb) if isinstance(s, ast.For)]
        first = norm(wb[0]) if wb else ''
        upd = any(norm(s) == "triples.update(set(data['triple']))" for l in loops for s in wb[l].body)
        if len(calls) == 1 and len(top) == 1 and len(loops) == 1 and loops[0] < top[0] and first == 'triples = set()' and upd \
                and norm(wb[-1]) == 'return len(triples)' and norm(wb[loops[0]].iter) == 'mapping_group_df.iterrows()':
            m['workerWritesOnce'] = True
        else:
            failures.append('_materialize_mapping_group_to_file: not `triples = set(); for …: triples.update(set(data[\'triple\'])); '
                            'triples_to_file(triples, config, <partition>)` with exactly one triples_to_file call')
    except KeyError:
        failures.append('materializer._materialize_mapping_group_to_file not found')
    return m


# ----------------------------------------------------------------------------------------------------
# __init__.materialize_set
# ----------------------------------------------------------------------------------------------------

LIB_POOL = ('triples = set().union(*pool.starmap(_materialize_mapping_group_to_set, '
            'zip(mapping_groups, repeat(rml_df), repeat(fnml_df), repeat(config), repeat(python_source))))')
LIB_SEQ = 'triples.update(_materialize_mapping_group_to_set(mapping_group, rml_df, fnml_df, config, python_source))'


def read_lib(src, failures):
    lib = {'pool': 'unknown', 'seq': 'unknown'}
    try:
        fn = src.func('__init__.py', 'materialize_set')
    except KeyError:
        failures.append('__init__.materialize_set not found')
        return lib
    body = strip_doc(fn.body)
    texts = [norm(s) for s in body]
    i_if = [i for i, s in enumerate(body) if isinstance(s, ast.If) and norm(s.test) == 'config.is_multiprocessing_enabled()']
    i_groups = [i for i, t in enumerate(texts) if t == GROUPS_STMT]
    if len(i_if) != 1 or len(i_groups) != 1 or i_groups[0] > i_if[0]:
        failures.append('materialize_set: mapping_groups definition / multiprocessing branch not recognised')
        return lib
    for s in body[i_groups[0] + 1:i_if[0]]:
        if any(isinstance(x, ast.Name) and x.id == 'mapping_groups' for x in ast.walk(s)):
            failures.append('materialize_set: mapping_groups is used/rebound before the branch')
            return lib
    if texts[-1] != 'return triples':
        failures.append('materialize_set: does not end with `return triples`')
        return lib
    for s in body[i_if[0] + 1:-1]:
        if any(isinstance(x, ast.Name) and x.id == 'triples' and isinstance(x.ctx, (ast.Store, ast.Del)) for x in ast.walk(s)) \
                or 'triples.' in norm(s):
            failures.append('materialize_set: `triples` is modified after the branch: ' + norm(s)[:160])
            return lib
    branch = body[i_if[0]]
    pb = [norm(s) for s in branch.body]
    assigns = [t for t in pb if t.startswith('triples')]
    touched = [t[:120] for t in pb[:pb.index(LIB_POOL)] if 'mapping_groups' in t] if LIB_POOL in pb else []
    if touched:
        failures.append('materialize_set: mapping_groups is used/changed inside the multi-process branch before the starmap: ' + ' ; '.join(touched))
    if POOL_NEW in pb and assigns == [LIB_POOL] and pb.index(POOL_NEW) < pb.index(LIB_POOL) and not touched:
        lib['pool'] = 'unionStar'
    else:
        failures.append('materialize_set: multi-process branch is not `' + LIB_POOL + '`; found: ' + ' ; '.join(pb)[:400])
    ob = branch.orelse
    if len(ob) == 2 and norm(ob[0]) == 'triples = set()' and isinstance(ob[1], ast.For) and norm(ob[1].target) == 'mapping_group' \
            and norm(ob[1].iter) == 'mapping_groups' and not ob[1].orelse and [norm(s) for s in ob[1].body] == [LIB_SEQ]:
        lib['seq'] = 'updateLoop'
    else:
        failures.append('materialize_set: single-process branch is not `triples = set(); for mapping_group in mapping_groups: '
                        + LIB_SEQ + '`')
    return lib


def generate(src, env, out, summary):
    failures = []
    shape = read_writer(src, failures)
    main = read_main(src, failures)
    lib = read_lib(src, failures)

    def piece(p):
        return '.triple' if p[0] == 'triple' else f'.lit {lean_chars(p[1])}'
    calls = shape['calls'] if shape['calls'] is not None else []
    calls_l = '[' + ', '.join('[' + ', '.join(piece(p) for p in c) + ']' for c in calls) + ']'
    lines = [HEADER.replace('tools/extract.py', 'tools/extract.py (tools/gen/C04.py)'), 'import MorphKgc.Model.Writer', '',
             'namespace Gen', 'open Py Model.Writer', '',
             '/-- `utils.triples_to_file`: open mode, the `f.write` calls of one loop iteration, what follows the loop -/',
             'def writerShape : WriterShape :=',
             f'  {{ append := {lean_bool(shape["append"])}, calls := {calls_l},',
             f'    flush := {lean_bool(shape["flush"])}, fsync := {lean_bool(shape["fsync"])}, close := {lean_bool(shape["close"])} }}', '',
             '/-- `__main__.py` and `materializer._materialize_mapping_group_to_file` -/',
             'def mainShape : MainShape :=',
             '  { ' + ', '.join(f'{k} := {lean_bool(main[k])}' for k in
                                ('prepareBeforeWorkers', 'poolStarmapAllGroups', 'seqLoopAllGroups', 'workerWritesOnce')) + ' }', '',
             '/-- `__init__.materialize_set`: how the per-group results are combined -/',
             f'def libShape : LibShape := {{ pool := .{lib["pool"]}, seq := .{lib["seq"]} }}', '',
             f'def writerTranslated : Bool := {lean_bool(not failures)}', '',
             'end Gen', '']
    write_if_changed(os.path.join(out, 'Writer.lean'), '\n'.join(lines))
    summary['writer'] = {'shape': {**shape, 'calls': [[list(p) for p in c] for c in calls]}, 'main': main, 'lib': lib,
                         'failures': failures}
