"""
C12: generators for mapping documents that are split over several mapping files and several data-source sections.

  * a pool of triples maps of the core fragment (coregen) + referencing object maps (joins inside / across logical sources),
    identifiers sharing prefixes (TM1, TM10, TM1x …), optional shared blank-node labels in the Turtle rendering
  * closed components (a triples map together with everything it references, transitively, and everything referencing it)
  * random assignment of components to 1-3 sections and of triples maps to 1-3 files per section (files of one section
    are merged by the engine, so a file need not be closed; a section must be)
  * the configuration text with several data-source sections, and the same configuration as JSON for the Lean driver
"""
import json
import os

import coregen as cg

SECTION_NAMES = ['DS', 'A', 'B', 'src1', 'Source_2', 'zz', 'DataSource1', 'csv files', 'X9', 'alpha', 'beta', 'm']
ID_POOL = ['TM1', 'TM10', 'TM1x', 'TM2', 'TM', 'T', 'TM11', 'a/TM1', 'TM1#a', 'TM1#b', 'Map', 'MapB', 'TM3', 'TM01', 'x', 'xy']


def gen_pool(rng, d, max_tms=5, max_poms=2, join_rate=0.5, clash_rate=0.0):
    """-> (doc, tables, columns): `doc['tms']` with unique ids, joins added; every source is a CSV file in `d`"""
    os.makedirs(d, exist_ok=True)
    sources, tables, columns = [], {}, {}
    base_cols = rng.sample(['id', 'name', 'k', 'v', 'x_1'], rng.randrange(2, 4))
    for k in range(rng.randrange(1, 4)):
        # several sources share the column set (the same mapping shape over different data) or have their own
        cols = list(base_cols) if rng.random() < 0.6 else rng.sample(['id', 'name', 'k', 'v', 'x_1', 'A'], rng.randrange(2, 4))
        rows = cg.gen_table(rng, cols, rng.randrange(1, 5), value_kind='plain', null_rate=0.1)
        # few distinct values so that joins match
        for r in rows:
            for c in cols:
                if r[c] not in ('', 'nan') and rng.random() < 0.7:
                    r[c] = rng.choice(['1', '2', 'a', 'b'])
        path = os.path.join(d, f't{k}.csv')
        assert cg.write_csv(path, cols, rows)
        sources.append((path, cols))
        tables[path] = rows
        columns[path] = cols
    doc = cg.gen_doc(rng, sources, max_tms=max_tms, max_poms=max_poms, value_kind='plain')
    names = rng.sample(ID_POOL, len(doc['tms']))
    for tm, n in zip(doc['tms'], names):
        tm['id'] = 'http://ex.org/tm/' + n
    ids = [tm['id'] for tm in doc['tms']]
    # referencing object maps
    for tm in doc['tms']:
        for pom in tm['poms']:
            if rng.random() < join_rate:
                parent = rng.choice(doc['tms'])
                ccols, pcols = columns[tm['source']], columns[parent['source']]
                r = rng.random()
                if r < 0.2 and parent['source'] == tm['source']:
                    join = []      # no join condition: the engine takes the parent's subject from the same row
                elif r < 0.5 and set(ccols) & set(pcols):
                    c = rng.choice(sorted(set(ccols) & set(pcols)))
                    join = [[c, c]]
                else:
                    join = [[rng.choice(ccols), rng.choice(pcols)] for _ in range(1 if rng.random() < 0.8 else 2)]
                    join = [list(x) for x in dict.fromkeys(tuple(j) for j in join)]
                # the referencing object map is the only object map of its POM (mixed POMs: the engine keeps only the term-valued ones)
                pom['objects'] = [{'parent': parent['id'], 'join': join}]
    # C12_F2 probes: a constant object that is the IRI of another triples map of the document
    if clash_rate and rng.random() < clash_rate and len(ids) > 1:
        tm = rng.choice(doc['tms'])
        other = rng.choice([i for i in ids if i != tm['id']])
        tm['poms'].append({'predicates': [{'kind': 'constant', 'value': 'http://ex.org/p/derivedFrom', 'termtype': 'iri'}],
                           'objects': [{'kind': 'constant', 'value': other, 'termtype': 'iri'}], 'graphs': []})
    return doc, tables, columns


def parents_of(tm):
    return [o['parent'] for pom in tm['poms'] for o in pom['objects'] if o.get('parent')]


def components(tms):
    """connected components of the reference graph (undirected), each a list of indices in document order"""
    idx = {tm['id']: i for i, tm in enumerate(tms)}
    par = list(range(len(tms)))

    def find(x):
        while par[x] != x:
            par[x] = par[par[x]]
            x = par[x]
        return x
    for i, tm in enumerate(tms):
        for p in parents_of(tm):
            if p in idx:
                par[find(i)] = find(idx[p])
    groups = {}
    for i in range(len(tms)):
        groups.setdefault(find(i), []).append(i)
    return list(groups.values())


def closed(tms):
    ids = {tm['id'] for tm in tms}
    return all(p in ids for tm in tms for p in parents_of(tm))


def assign(rng, tms, max_sections=3, max_files=3):
    """-> sections: list of {'name', 'files': [[tm, …], …]} — components to sections, triples maps to files"""
    comps = components(tms)
    nsec = rng.randrange(1, min(max_sections, len(comps)) + 1)
    names = rng.sample(SECTION_NAMES, nsec)
    secs = [{'name': n, 'files': []} for n in names]
    where = [rng.randrange(nsec) for _ in comps]
    for k in range(nsec):      # no empty section
        if k not in where:
            where[rng.randrange(len(comps))] = k
    where_ok = set(where)
    secs = [s for k, s in enumerate(secs) if k in where_ok]
    remap = {k: i for i, k in enumerate(sorted(where_ok))}
    members = [[] for _ in secs]
    for comp, w in zip(comps, where):
        members[remap[w]] += comp
    for s, m in zip(secs, members):
        m = sorted(m) if rng.random() < 0.5 else rng.sample(m, len(m))
        nf = rng.randrange(1, min(max_files, len(m)) + 1)
        files = [[] for _ in range(nf)]
        for j, i in enumerate(m):
            files[j if j < nf else rng.randrange(nf)].append(tms[i])
        s['files'] = files
    return secs


SHARED_PREFIX = cg.R2RML_PREFIX


def render_file(tms, rng=None, share_bnodes=False):
    """Turtle of one mapping file. With `share_bnodes`, logical sources are written once per file as labelled blank nodes
    (`_:ls0` …, the same labels in every file — labels are document-scoped) and shared by the triples maps that use them."""
    text = cg.render_doc({'tms': tms})
    if share_bnodes:
        seen = {}
        out = []
        for line in text.split('\n'):
            s = line.strip()
            if s.startswith('rml:logicalSource [') and s.endswith('] ;'):
                body = s[len('rml:logicalSource ['):-len('] ;')].strip()
                if body not in seen:
                    seen[body] = f'_:ls{len(seen)}'
                line = f'  rml:logicalSource {seen[body]} ;'
            out.append(line)
        text = '\n'.join(out) + '\n' + ''.join(f'{lab} {body} .\n' for body, lab in seen.items())
    return text


def write_config(d, secs, fmt='N-QUADS', rng=None, share_bnodes=False, tag='m'):
    """writes the mapping files, returns the configuration text"""
    os.makedirs(d, exist_ok=True)
    c = ['[CONFIGURATION]', f'output_format={fmt}', 'number_of_processes=1', 'logging_level=CRITICAL']
    for k, s in enumerate(secs):
        paths = []
        for j, tms in enumerate(s['files']):
            p = os.path.join(d, f'{tag}_{k}_{j}.ttl')
            with open(p, 'w', encoding='utf-8') as f:
                f.write(render_file(tms, rng, share_bnodes))
            paths.append(p)
        c += [f'[{s["name"]}]', 'mappings=' + ','.join(paths)]
    return '\n'.join(c) + '\n'


def section_order(cfg_text):
    """the order in which the engine visits the data-source sections (a `set` difference: hash order of this process)"""
    from morph_kgc.args_parser import load_config_from_argument
    return load_config_from_argument(cfg_text).get_data_sources_sections()


def driver_config(secs, order=None):
    """the configuration as the Lean driver expects it (sections in engine order; default graph by IRI)"""
    by = {s['name']: s for s in secs}
    names = order or [s['name'] for s in secs]
    out = []
    for n in names:
        s = by[n]
        files = []
        for tms in s['files']:
            d = cg.doc_for_driver({'tms': tms}, source_name=n)
            for tm in d['tms']:
                tm['source_name'] = n
            files.append(d['tms'])
        out.append({'name': n, 'files': files})
    return out


def driver_tables(secs, tables):
    out = []
    for s in secs:
        paths = sorted({tm['source'] for tms in s['files'] for tm in tms})
        for p in paths:
            out.append(cg.table_json(s['name'], p, tables[p]))
    return out


def all_tms(secs):
    return [tm for s in secs for tms in s['files'] for tm in tms]


def scope_dup_id(secs):
    """C12_F1: one identifier declared in two sections"""
    seen = {}
    for s in secs:
        for tms in s['files']:
            for tm in tms:
                if seen.setdefault(tm['id'], s['name']) != s['name']:
                    return True
    return False


def scope_value_clash(secs):
    """C12_F2: the value of a subject map, or of an object map that is not a referencing object map, equals a triples-map identifier"""
    ids = {tm['id'] for tm in all_tms(secs)}
    for tm in all_tms(secs):
        if tm['subject'].get('value') in ids:
            return True
        for pom in tm['poms']:
            for o in pom['objects']:
                if not o.get('parent') and o.get('value') in ids:
                    return True
    return False


def key_of(secs, tables):
    return json.loads(json.dumps([[{'name': s['name'], 'files': s['files']} for s in secs],
                                  {os.path.basename(p): r for p, r in tables.items()}]))
