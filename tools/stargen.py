"""
C13: abstract RML-star documents (quoted triples maps in subject / object position, with and without join conditions, nested,
asserted / non-asserted), their rendering to RML Turtle (the vocabulary of /repo/test/rml-star), tables with duplicate join
keys and NULLs, and an INDEPENDENT Python reading of the generation rules (`py_spec`): nested loops over rows and joined rows,
written without reference to the engine or to the Lean model.

Abstract document (JSON):
  {'tms': [{'id': iri, 'source': path, 'asserted': True | False | None (no rdf:type at all),
            'subject': termmap + {'classes': [...], 'graphs': [...]}  |  {'quoted': id, 'join': [[child, parent], ...], 'classes': [], 'graphs': [...]},
            'poms': [{'predicates': [termmap], 'objects': [termmap | {'quoted': id, 'join': [...]}], 'graphs': [termmap]}]}]}
termmap = {'kind': 'constant'|'template'|'reference', 'value': str, 'tpl': {'pre': str, 'parts': [[ref, lit], ...]}, 'termtype': 'iri'|'bnode'|'literal',
           'lang': str?, 'datatype': iri?}; the graph map {'kind': 'constant', 'value': 'DEFAULT'} names the default graph.
"""
import json
import os

import coregen as cg

RML = cg.RML
RDF_TYPE = cg.RDF_TYPE
XSD = cg.XSD

PLAIN = 'abcXYZ019'
RICH = ['a', 'b', 'z', 'A', '0', '7', ' ', '"', '\\', "'", 'é', '<', '>', '%', '/', '#', '中', '\t', '&', '{', '}', '^', '|', '.', '-', '_', '~']
KEYS = ['K1', 'K2', 'K3']


def rich_value(rng):
    n = rng.randrange(1, 6)
    return ''.join(rng.choice(RICH) if rng.random() < 0.5 else rng.choice(PLAIN) for _ in range(n))


def plain_value(rng):
    return ''.join(rng.choice(PLAIN) for _ in range(rng.randrange(1, 4)))


def gen_source(rng, d, k, null_rate=0.18, max_rows=5):
    """columns: p* plain (usable for reference-valued IRIs and blank nodes), r* rich (literals, templates), j* join keys"""
    tag = 'abc'[k]
    cols = [f'{tag}p1', f'{tag}p2', f'{tag}r1', f'{tag}j1', f'{tag}j2', f'{tag}u1']
    if rng.random() < 0.5:
        cols.append('id')          # a column name shared by the sources (overlapping names across joined frames)
    rows = []
    for _ in range(rng.randrange(0, max_rows + 1)):
        r = {}
        for c in cols:
            if rng.random() < null_rate:
                r[c] = rng.choice(['', 'nan'])
            elif c[1:2] == 'j':
                r[c] = rng.choice(KEYS[:2] if rng.random() < 0.8 else KEYS)
            elif c[1:2] == 'r':
                r[c] = rich_value(rng)
            elif c[1:2] == 'u':
                r[c] = 'http://u.org/' + plain_value(rng)
            else:
                r[c] = plain_value(rng)
        rows.append(r)
    if rows and rng.random() < 0.35:
        rows.append(dict(rng.choice(rows)))
    path = os.path.join(d, f't{k}.csv')
    if not cg.write_csv(path, cols, rows):
        for r in rows:
            for c in cols:
                if c[1:2] == 'r' and r[c] not in ('', 'nan'):
                    r[c] = plain_value(rng)
        assert cg.write_csv(path, cols, rows)
    return path, cols, rows


def _plain_cols(cols):
    return [c for c in cols if c[1:2] == 'p' or c == 'id']


def _key_cols(cols):
    return [c for c in cols if c[1:2] == 'j']


def _iri_cols(cols):
    return [c for c in cols if c[1:2] == 'u']


def gen_tm_term(rng, cols, position):
    """an ordinary term map of the core fragment, restricted so that other properties' findings are out of reach
    (no escaped braces, reference-valued IRIs / blank nodes only over plain columns, plain constants)"""
    r = rng.random()
    pc = _plain_cols(cols) or cols
    uc = _iri_cols(cols) or pc
    def tpl(pre, refs, iri):
        parts = []
        for i, c in enumerate(refs):
            parts.append([c, rng.choice(['', '/', '-', '_x']) if (i < len(refs) - 1 or rng.random() < 0.4) else ''])
        t = {'pre': pre, 'parts': parts}
        return t
    if position == 'predicate':
        if r < 0.8:
            return {'kind': 'constant', 'value': 'http://ex.org/p/' + rng.choice('abcde'), 'termtype': 'iri'}
        t = tpl('http://ex.org/pp/', [rng.choice(cols)], True)
        return {'kind': 'template', 'tpl': t, 'value': cg.render_tpl(t), 'termtype': 'iri'}
    if position == 'graph':
        if r < 0.5:
            return {'kind': 'constant', 'value': 'http://ex.org/g/' + rng.choice('abc'), 'termtype': 'iri'}
        if r < 0.6:
            return {'kind': 'constant', 'value': 'DEFAULT', 'termtype': 'iri'}
        if r < 0.9:
            t = tpl('http://ex.org/g/', [rng.choice(cols)], True)
            return {'kind': 'template', 'tpl': t, 'value': cg.render_tpl(t), 'termtype': 'iri'}
        return {'kind': 'reference', 'value': rng.choice(uc), 'termtype': 'iri'}
    if position == 'subject':
        if r < 0.66:
            t = tpl('http://ex.org/s/', rng.sample(cols, rng.randrange(1, 3)), True)
            return {'kind': 'template', 'tpl': t, 'value': cg.render_tpl(t), 'termtype': 'iri'}
        if r < 0.8:
            t = {'pre': 'b', 'parts': [[rng.choice(pc), '']]}
            return {'kind': 'template', 'tpl': t, 'value': cg.render_tpl(t), 'termtype': 'bnode'}
        if r < 0.9:
            return {'kind': 'constant', 'value': 'http://ex.org/s/' + rng.choice('abc'), 'termtype': 'iri'}
        return {'kind': 'reference', 'value': rng.choice(uc), 'termtype': 'iri'}
    # object
    if r < 0.3:
        tm = {'kind': 'reference', 'value': rng.choice(cols), 'termtype': 'literal'}
    elif r < 0.45:
        t = tpl(rng.choice(['', 'v ', 'x=']), rng.sample(cols, rng.randrange(1, 3)), False)
        tm = {'kind': 'template', 'tpl': t, 'value': cg.render_tpl(t), 'termtype': 'literal'}
    elif r < 0.68:
        t = tpl('http://ex.org/o/', rng.sample(cols, rng.randrange(1, 3)), True)
        tm = {'kind': 'template', 'tpl': t, 'value': cg.render_tpl(t), 'termtype': 'iri'}
    elif r < 0.78:
        tm = {'kind': 'constant', 'value': 'http://ex.org/o/' + rng.choice('abc'), 'termtype': 'iri'}
    elif r < 0.86:
        tm = {'kind': 'constant', 'value': rng.choice(['lit', 'a b', 'x-1', '42']), 'termtype': 'literal'}
    elif r < 0.93:
        t = {'pre': 'n', 'parts': [[rng.choice(pc), '']]}
        tm = {'kind': 'template', 'tpl': t, 'value': cg.render_tpl(t), 'termtype': 'bnode'}
    else:
        tm = {'kind': 'reference', 'value': rng.choice(uc), 'termtype': 'iri'}
    if tm['termtype'] == 'literal':
        q = rng.random()
        if q < 0.2:
            tm['lang'] = rng.choice(['en', 'es', 'en-GB'])
        elif q < 0.4:
            tm['datatype'] = XSD + rng.choice(['string', 'token', 'anyURI'])
    return tm


def gen_quoted_ref(rng, tm_source, tm_cols, quoted_tm, sources, force_join=None):
    """a reference to `quoted_tm` from a map over `tm_source`: without join condition only over the same logical source"""
    same = quoted_tm['source'] == tm_source
    join = force_join if force_join is not None else (not same or rng.random() < 0.45)
    if not same:
        join = True
    ref = {'quoted': quoted_tm['id'], 'join': []}
    if join:
        pcols = dict(sources)[quoted_tm['source']]
        ck, pk = _key_cols(tm_cols), _key_cols(pcols)
        n = 1 if rng.random() < 0.7 else 2
        for i in range(n):
            ref['join'].append([ck[i % len(ck)] if rng.random() < 0.8 else rng.choice(ck), pk[i % len(pk)] if rng.random() < 0.8 else rng.choice(pk)])
        if len(ref['join']) == 2 and ref['join'][0] == ref['join'][1]:
            ref['join'] = ref['join'][:1]
    return ref


def flat_sizes(doc):
    """number of flat rules of every triples map after `_normalize_rml_star` (the product over its quoted references)"""
    by_id = {t['id']: t for t in doc['tms']}
    memo = {}
    def n(i, seen=()):
        if i in memo:
            return memo[i]
        if i in seen or i not in by_id:
            return 1
        tm = by_id[i]
        sm = n(tm['subject']['quoted'], seen + (i,)) if 'quoted' in tm['subject'] else 1
        tot = 0
        for p, o, gs in _combos(doc, tm):
            om = n(o['quoted'], seen + (i,)) if 'quoted' in o else 1
            tot += sm * om * max(1, len(gs))
        memo[i] = max(tot, 1)
        return memo[i]
    return {t['id']: n(t['id']) for t in doc['tms']}


def gen_star_doc(rng, sources, max_base=3, max_quoting=3, graphs=True, shape=None, max_rules=60):
    """the expansion of quoted references is a product: documents whose normalised rule table would exceed `max_rules` are redrawn"""
    for _ in range(200):
        doc = _gen_star_doc(rng, sources, max_base, max_quoting, graphs, shape)
        if sum(flat_sizes(doc).values()) <= max_rules:
            return doc
    return _gen_star_doc(rng, sources, 1, 1, False, shape)


def _gen_star_doc(rng, sources, max_base=3, max_quoting=3, graphs=True, shape=None):
    """sources: list of (path, columns). Elementary maps first, then maps quoting earlier ones (acyclic by construction)."""
    tms = []
    smap = dict(sources)
    def new_id():
        return f'http://ex.org/tm/TM{len(tms)}'
    def poms_for(cols, objects_hook=None, nmax=3, nmin=1):
        poms = []
        for _ in range(rng.randrange(nmin, nmax + 1)):
            objs = [gen_tm_term(rng, cols, 'object') for _ in range(1 if rng.random() < 0.8 else 2)]
            poms.append({'predicates': [gen_tm_term(rng, cols, 'predicate') for _ in range(1 if rng.random() < 0.85 else 2)],
                         'objects': objs,
                         'graphs': [gen_tm_term(rng, cols, 'graph') for _ in range(rng.randrange(1, 3))] if graphs and rng.random() < 0.25 else []})
        return poms
    for _ in range(rng.randrange(1, max_base + 1)):
        path, cols = rng.choice(sources)
        sm = gen_tm_term(rng, cols, 'subject')
        sm['classes'] = ['http://ex.org/C' + rng.choice('123') for _ in range(rng.randrange(1, 3))] if rng.random() < 0.4 else []
        sm['graphs'] = [gen_tm_term(rng, cols, 'graph') for _ in range(rng.randrange(1, 3))] if graphs and rng.random() < 0.25 else []
        tms.append({'id': new_id(), 'source': path, 'asserted': rng.choice([True, False, False, None]), 'subject': sm,
                    'poms': poms_for(cols, nmin=0 if sm['classes'] else 1)})
    for qi in range(rng.randrange(1, max_quoting + 1)):
        path, cols = rng.choice(sources)
        # prefer quoting the most recent maps, so that depth 2 and 3 occur
        def pick():
            cands = tms[-2:] if rng.random() < 0.6 else tms
            return rng.choice(cands)
        sh = shape or rng.choice(['subject', 'object', 'both', 'both', 'subject+plainobj'])
        if sh in ('subject', 'both', 'subject+plainobj'):
            q = pick()
            if rng.random() < 0.5:
                path, cols = q['source'], smap[q['source']]
            sm = gen_quoted_ref(rng, path, cols, q, sources)
            sm['classes'] = []
            sm['graphs'] = [gen_tm_term(rng, cols, 'graph')] if graphs and rng.random() < 0.25 else []
        else:
            sm = gen_tm_term(rng, cols, 'subject')
            sm['classes'] = ['http://ex.org/C' + rng.choice('123')] if rng.random() < 0.2 else []
            sm['graphs'] = [gen_tm_term(rng, cols, 'graph')] if graphs and rng.random() < 0.25 else []
        poms = poms_for(cols, nmax=2)
        if sh in ('object', 'both'):
            for k in range(1 if rng.random() < 0.8 else 2):
                q = pick()
                second = 'quoted' in sm and bool(sm.get('join'))
                if second and rng.random() < 0.7:
                    same = [t for t in tms if t['source'] == path]
                    q = rng.choice(same) if same else q
                qo = gen_quoted_ref(rng, path, cols, q, sources, force_join=(False if (second and q['source'] == path and rng.random() < 0.8) else None))
                pom = rng.choice(poms)
                if rng.random() < 0.6:
                    pom['objects'] = [qo]
                else:
                    pom['objects'].append(qo)
        tms.append({'id': new_id(), 'source': path, 'asserted': rng.choice([True, True, True, False, None]), 'subject': sm, 'poms': poms})
    if not any(t['asserted'] is not False for t in tms):
        tms[-1]['asserted'] = True
    return {'tms': tms}


# ----------------------------------------------------------------------------------------------------
# rendering (new RML vocabulary, as in /repo/test/rml-star)
# ----------------------------------------------------------------------------------------------------

PREFIX = ('@prefix rml: <http://w3id.org/rml/> .\n@prefix xsd: <http://www.w3.org/2001/XMLSchema#> .\n'
          '@prefix rdf: <http://www.w3.org/1999/02/22-rdf-syntax-ns#> .\n')
TT = {'iri': 'rml:IRI', 'bnode': 'rml:BlankNode', 'literal': 'rml:Literal'}


def render_term(tm):
    ps = []
    if tm['kind'] == 'constant':
        if tm['value'] == 'DEFAULT':
            ps.append('rml:constant rml:defaultGraph')
        elif tm.get('termtype') == 'literal':
            ps.append('rml:constant ' + cg.turtle_str(tm['value']))
        else:
            ps.append(f'rml:constant <{tm["value"]}>')
    elif tm['kind'] == 'template':
        ps.append('rml:template ' + cg.turtle_str(tm['value']))
    else:
        ps.append('rml:reference ' + cg.turtle_str(tm['value']))
    if tm.get('termtype') and tm['kind'] != 'constant':
        ps.append('rml:termType ' + TT[tm['termtype']])
    if tm.get('lang'):
        ps.append('rml:language ' + cg.turtle_str(tm['lang']))
    if tm.get('datatype'):
        ps.append(f'rml:datatype <{tm["datatype"]}>')
    return ps


def render_quoted(q):
    ps = [f'rml:quotedTriplesMap <{q["quoted"]}>']
    if q.get('explicit_termtype'):
        ps.append('rml:termType rml:RDFstarTriple')
    for c, p in q.get('join', []):
        ps.append(f'rml:joinCondition [ rml:child {cg.turtle_str(c)} ; rml:parent {cg.turtle_str(p)} ]')
    return ps


def render_any(m):
    return render_quoted(m) if 'quoted' in m else render_term(m)


CLASS_OF = {True: 'rml:AssertedTriplesMap', False: 'rml:NonAssertedTriplesMap'}


def render_star_doc(doc, all_asserted=False):
    out = [PREFIX]
    for tm in doc['tms']:
        a = True if all_asserted else tm.get('asserted', True)
        head = f'<{tm["id"]}>' + (f' a {CLASS_OF[a]} ;' if a is not None else '')
        lines = [head]
        lines.append(f'  rml:logicalSource [ rml:source {cg.turtle_str(tm["source"])} ; rml:referenceFormulation rml:CSV ] ;')
        sm = tm['subject']
        sp = render_any(sm)
        for c in sm.get('classes', []):
            sp.append(f'rml:class <{c}>')
        for g in sm.get('graphs', []):
            sp.append('rml:graphMap [ ' + ' ; '.join(render_term(g)) + ' ]')
        lines.append('  rml:subjectMap [ ' + ' ; '.join(sp) + ' ]' + (' ;' if tm['poms'] else ' .'))
        for k, pom in enumerate(tm['poms']):
            pp = []
            for p in pom['predicates']:
                pp.append('rml:predicateMap [ ' + ' ; '.join(render_term(p)) + ' ]')
            for o in pom['objects']:
                pp.append('rml:objectMap [ ' + ' ; '.join(render_any(o)) + ' ]')
            for g in pom.get('graphs', []):
                pp.append('rml:graphMap [ ' + ' ; '.join(render_term(g)) + ' ]')
            lines.append('  rml:predicateObjectMap [ ' + ' ; '.join(pp) + ' ]' + (' ;' if k < len(tm['poms']) - 1 else ' .'))
        out.append('\n'.join(lines))
    return '\n\n'.join(out) + '\n'


# ----------------------------------------------------------------------------------------------------
# the generation rules, read independently (RML-star: a quoted triples map contributes, per row or joined row, the
# quoted triple of each triple it generates; R2RML 11: a statement needs all its terms and a graph placement)
# ----------------------------------------------------------------------------------------------------

NA = ('', 'nan')
UNRESERVED = set('abcdefghijklmnopqrstuvwxyzABCDEFGHIJKLMNOPQRSTUVWXYZ0123456789-._~')


def pct(v):
    return ''.join(ch if ch in UNRESERVED else ''.join('%%%02X' % b for b in ch.encode('utf-8')) for ch in v)


ECHAR = {'\\': '\\\\', '"': '\\"', "'": "\\'", '\n': '\\n', '\r': '\\r', '\t': '\\t', '\b': '\\b', '\f': '\\f'}


def esc(v):
    return ''.join(ECHAR.get(ch, ch) for ch in v)


def value_of(row, c, na=NA):
    v = row.get(c)
    return None if v is None or v in na else v


def py_term(tm, row, na=NA):
    if tm['kind'] == 'constant':
        v = tm['value']
    elif tm['kind'] == 'reference':
        v = value_of(row, tm['value'], na)
    else:
        v = tm['tpl']['pre']
        for c, lit in tm['tpl']['parts']:
            x = value_of(row, c, na)
            if x is None:
                return None
            v += (pct(x) if tm['termtype'] == 'iri' else x) + lit
    if v is None:
        return None
    tt = tm['termtype']
    if tt == 'iri':
        return '<' + v + '>'
    if tt == 'bnode':
        return '_:' + v
    s = '"' + esc(v) + '"'
    if tm.get('lang'):
        s += '@' + tm['lang']
    elif tm.get('datatype') and tm['datatype'] != XSD + 'string':
        s += '^^<' + tm['datatype'] + '>'
    return s


class PySpec:
    def __init__(self, doc, tables, na=NA):
        self.doc = doc
        self.by_id = {t['id']: t for t in doc['tms']}
        self.tables = tables
        self.na = na

    def joined(self, conds, row, qtm):
        if not conds:
            return [row]
        out = []
        for r2 in self.tables[qtm['source']]:
            ok = True
            for c, p in conds:
                a, b = value_of(row, c, self.na), value_of(r2, p, self.na)
                if a is None or b is None or a != b:
                    ok = False
                    break
            if ok:
                out.append(r2)
        return out

    def pos_terms(self, m, row, depth):
        """the terms a subject / object map generates for a row: [] = NULL"""
        if 'quoted' in m:
            if depth <= 0:
                raise RecursionError('quoting deeper than the bound')
            q = self.by_id[m['quoted']]
            out = []
            for r2 in self.joined(m.get('join') or [], row, q):
                for t in sorted(self.triples(q, r2, depth - 1)):
                    out.append('<< ' + t + ' >>')
            return out
        t = py_term(m, row, self.na)
        return [] if t is None else [t]

    def graph_terms(self, gs, row):
        if not gs:
            return ['']
        out = []
        for g in gs:
            if g['kind'] == 'constant' and g['value'] == 'DEFAULT':
                out.append('')
            else:
                t = py_term(g, row, self.na)
                if t is not None:
                    out.append(t)
        return out

    def statements(self, tm, row, depth):
        """(s, p, o, g) of every statement the map generates for the row"""
        subs = self.pos_terms(tm['subject'], row, depth)
        sg = tm['subject'].get('graphs', [])
        out = []
        if not subs:
            return out
        for c in tm['subject'].get('classes', []):
            for g in self.graph_terms(sg, row):
                for s in subs:
                    out.append((s, '<' + RDF_TYPE + '>', '<' + c + '>', g))
        for pom in tm['poms']:
            gts = self.graph_terms(sg + pom.get('graphs', []), row)
            if not gts:
                continue
            for p in pom['predicates']:
                pt = py_term(p, row, self.na)
                if pt is None:
                    continue
                for o in pom['objects']:
                    for ot in self.pos_terms(o, row, depth):
                        for s in subs:
                            for g in gts:
                                out.append((s, pt, ot, g))
        return out

    def triples(self, tm, row, depth):
        return {f'{s} {p} {o}' for s, p, o, g in self.statements(tm, row, depth)}

    def lines(self, fmt, depth=None):
        depth = len(self.doc['tms']) if depth is None else depth
        out = set()
        for tm in self.doc['tms']:
            if tm.get('asserted', True) is False:
                continue
            for row in self.tables[tm['source']]:
                for s, p, o, g in self.statements(tm, row, depth):
                    out.add(f'{s} {p} {o} {g}' if fmt == 'N-QUADS' else f'{s} {p} {o}')
        return sorted(out)


# ----------------------------------------------------------------------------------------------------
# scope predicates of the findings (mechanism-narrow; evaluated on the abstract document)
# ----------------------------------------------------------------------------------------------------

def _combos(doc, tm):
    """(predicate map, object map, graph maps) of every flat rule of a triples map"""
    sg = tm['subject'].get('graphs', [])
    for c in tm['subject'].get('classes', []):
        yield ({'kind': 'constant'}, {'kind': 'constant'}, sg)
    for pom in tm['poms']:
        for p in pom['predicates']:
            for o in pom['objects']:
                yield (p, o, sg + pom.get('graphs', []))


def all_constant_rule(doc, tm):
    """the map has a flat rule whose subject, predicate, object and graph map are all constant-valued"""
    if 'quoted' in tm['subject'] or tm['subject']['kind'] != 'constant':
        return False
    for p, o, gs in _combos(doc, tm):
        if 'quoted' in o:
            continue
        if p['kind'] == 'constant' and o['kind'] == 'constant' and (not gs or any(g['kind'] == 'constant' for g in gs)):
            return True
    return False


def quoted_refs(tm):
    if 'quoted' in tm['subject']:
        yield 'subject', tm['subject']
    for pom in tm['poms']:
        for o in pom['objects']:
            if 'quoted' in o:
                yield 'object', o


def scope_F1(doc):
    """C13_F1: a quoted triples map has an all-constant flat rule (the quoting rule's frame is replaced by the placeholder frame)"""
    by_id = {t['id']: t for t in doc['tms']}
    return any(all_constant_rule(doc, by_id[q['quoted']]) for tm in doc['tms'] for _, q in quoted_refs(tm) if q['quoted'] in by_id)


def merge_sequences(doc):
    """for every triples map, the `_merge_data` calls performed on ONE data frame while a flat rule of the map is
    materialised, as lists of the numbers of join conditions in call order: a quoted map WITH join conditions is one merge
    on the quoting rule's frame; a quoted map WITHOUT join conditions is materialised on the same frame, so its own
    merges are performed on it too (subject position before object position)"""
    by_id = {t['id']: t for t in doc['tms']}
    memo = {}
    def pos(m, seen):
        if 'quoted' not in m:
            return [[]]
        if m.get('join'):
            return [[len(m['join'])]]
        q = by_id.get(m['quoted'])
        return seqs(q, seen) if q is not None else [[]]
    def seqs(tm, seen=()):
        if tm['id'] in memo:
            return memo[tm['id']]
        if tm['id'] in seen:
            return [[]]
        seen = seen + (tm['id'],)
        out = []
        S = pos(tm['subject'], seen)
        objs = [o for pom in tm['poms'] for o in pom['objects']] + ([{}] if tm['subject'].get('classes') else [])
        for o in objs or [{}]:
            for a in S:
                for b in pos(o, seen):
                    if a + b not in out:
                        out.append(a + b)
        memo[tm['id']] = out[:64]
        return memo[tm['id']]
    return {t['id']: seqs(t) for t in doc['tms']}


def scope_F2(doc):
    """C13_F2: some data frame goes through `_merge_data` twice (quoted maps with join conditions in subject AND object position
    of one rule, directly or through quoted maps without join condition) and the later call has exactly one condition
    (`DataFrame.join` refuses the `parent_…` columns left by the earlier call)"""
    for seqs in merge_sequences(doc).values():
        for sq in seqs:
            if len(sq) >= 2 and any(n == 1 for n in sq[1:]):
                return True
    return False


def scope_F3(doc):
    """C13_F3: a data frame that went through a one-condition `_merge_data` (`set_index(drop=False)` + `join` leave an index
    name) enters a `_merge_data` with several conditions, as the child frame (a later merge on the same frame) or as the parent
    frame (the quoted map's own frame): `DataFrame.merge` raises when the index name equals a key column; which name the inner
    join leaves depends on the rows"""
    seqs = merge_sequences(doc)
    for sq_list in seqs.values():
        for sq in sq_list:
            if any(sq[i] == 1 and any(m >= 2 for m in sq[i + 1:]) for i in range(len(sq))):
                return True
    for tm in doc['tms']:
        for _, q in quoted_refs(tm):
            if len(q.get('join') or []) >= 2 and any(1 in sq for sq in seqs.get(q['quoted'], [])):
                return True
    return False


def depth_of(doc):
    by_id = {t['id']: t for t in doc['tms']}
    memo = {}
    def d(i, seen=()):
        if i in memo:
            return memo[i]
        if i in seen or i not in by_id:
            return 0
        r = 0
        for _, q in quoted_refs(by_id[i]):
            r = max(r, 1 + d(q['quoted'], seen + (i,)))
        memo[i] = r
        return r
    return max([d(t['id']) for t in doc['tms']] or [0])


def features(doc):
    f = set()
    for tm in doc['tms']:
        pos = {p for p, _ in quoted_refs(tm)}
        if pos == {'subject'}:
            f.add('quoted-subject')
        if pos == {'object'}:
            f.add('quoted-object')
        if pos == {'subject', 'object'}:
            f.add('quoted-both')
        for _, q in quoted_refs(tm):
            f.add('join%d' % len(q.get('join') or []))
        if tm.get('asserted', True) is False:
            f.add('non-asserted')
    f.add('depth%d' % depth_of(doc))
    return sorted(f)


def doc_for_driver(doc, source_name='DS'):
    d = json.loads(json.dumps(doc))
    def fix(tm):
        if tm.get('kind') == 'constant' and tm.get('value') == 'DEFAULT':
            tm['value'] = RML + 'defaultGraph'
    for tm in d['tms']:
        tm['source_name'] = source_name
        tm['asserted'] = tm.get('asserted', True) is not False
        for g in tm['subject'].get('graphs', []):
            fix(g)
        for pom in tm['poms']:
            for g in pom.get('graphs', []):
                fix(g)
    return d


# ----------------------------------------------------------------------------------------------------
# cases
# ----------------------------------------------------------------------------------------------------

class StarCase:
    def __init__(self, d, doc, tables, columns, name=None):
        self.dir, self.doc, self.tables, self.columns, self.name = d, doc, tables, columns, name
        self.mapping = os.path.join(d, 'm.ttl')

    def write(self, all_asserted=False, path=None):
        path = path or self.mapping
        with open(path, 'w', encoding='utf-8') as f:
            f.write(render_star_doc(self.doc, all_asserted=all_asserted))
        return path

    def tables_json(self, section='DS'):
        return [cg.table_json(section, p, rows) for p, rows in self.tables.items()]

    def input(self, **kw):
        inp = {'doc': rebase_doc(self.doc, os.path.basename), 'tables': {os.path.basename(p): r for p, r in self.tables.items()},
               'columns': {os.path.basename(p): c for p, c in self.columns.items()}}
        inp.update(kw)
        return inp

    def key(self):
        return [rebase_doc(self.doc, os.path.basename), {os.path.basename(p): r for p, r in self.tables.items()}]


def rebase_doc(doc, f):
    d = json.loads(json.dumps(doc))
    for tm in d['tms']:
        tm['source'] = f(tm['source'])
    return d


def build_case(d, inp, name=None):
    """a case from its replay form (file names relative to the case directory)"""
    os.makedirs(d, exist_ok=True)
    tables, columns = {}, {}
    for fn, rows in inp['tables'].items():
        p = os.path.join(d, fn)
        cols = (inp.get('columns') or {}).get(fn) or sorted({c for r in rows for c in r})
        cg.write_csv(p, cols, rows)
        tables[p], columns[p] = rows, cols
    doc = rebase_doc(inp['doc'], lambda s: os.path.join(d, os.path.basename(s)))
    c = StarCase(d, doc, tables, columns, name)
    c.write()
    return c


def make_case(rng, d, max_rules=60, **kw):
    os.makedirs(d, exist_ok=True)
    sources, tables, columns = [], {}, {}
    for k in range(rng.randrange(1, 3)):
        p, cols, rows = gen_source(rng, d, k)
        sources.append((p, cols))
        tables[p], columns[p] = rows, cols
    doc = gen_star_doc(rng, sources, max_rules=max_rules, **kw)
    # an all-constant rule over an empty logical source is C01_F4's territory: give such a source one row
    for tm in doc['tms']:
        if all_constant_rule(doc, tm) and not tables[tm['source']]:
            cols = columns[tm['source']]
            tables[tm['source']].append({c: plain_value(rng) for c in cols})
            cg.write_csv(tm['source'], cols, tables[tm['source']])
    c = StarCase(d, doc, tables, columns)
    c.write()
    return c


def _tpl(pre, *cols, tt='iri', lits=None):
    parts = [[c, (lits[i] if lits else ('/' if i < len(cols) - 1 else ''))] for i, c in enumerate(cols)]
    t = {'pre': pre, 'parts': parts}
    return {'kind': 'template', 'tpl': t, 'value': cg.render_tpl(t), 'termtype': tt}


def _ref(col, tt='literal', **kw):
    d = {'kind': 'reference', 'value': col, 'termtype': tt}
    d.update(kw)
    return d


def _const(v, tt='iri'):
    return {'kind': 'constant', 'value': v, 'termtype': tt}


def _q(i, *join):
    return {'quoted': f'http://ex.org/tm/{i}', 'join': [list(j) for j in join]}


def _tm(i, source, subject, poms, asserted=True, classes=(), graphs=()):
    sm = dict(subject)
    sm['classes'] = list(classes)
    sm['graphs'] = list(graphs)
    return {'id': f'http://ex.org/tm/{i}', 'source': source, 'asserted': asserted, 'subject': sm,
            'poms': [{'predicates': [p if isinstance(p, dict) else _const('http://ex.org/p/' + p)], 'objects': list(os_), 'graphs': list(gs)}
                     for p, os_, gs in poms]}


T0_COLS = ['id', 'n', 'k', 'g', 'k2']
T0_ROWS = [{'id': '1', 'n': 'x y', 'k': 'K1', 'g': 'G1', 'k2': 'a'}, {'id': '2', 'n': '', 'k': 'K1', 'g': '', 'k2': 'a'},
           {'id': '3', 'n': 'z', 'k': 'K2', 'g': 'G2', 'k2': 'b'}, {'id': '3', 'n': 'z', 'k': 'K2', 'g': 'G2', 'k2': 'b'},
           {'id': '4', 'n': 'w"q\\', 'k': 'nan', 'g': 'G1', 'k2': 'a'}, {'id': '5', 'n': 'é<', 'k': 'K3', 'g': 'G3', 'k2': ''}]
T1_COLS = ['bid', 'v', 'k', 'm']
T1_ROWS = [{'bid': '10', 'v': 'u', 'k': 'K1', 'm': 'a'}, {'bid': '11', 'v': 'w', 'k': 'K1', 'm': 'b'}, {'bid': '12', 'v': 'q', 'k': 'K4', 'm': 'a'},
           {'bid': '13', 'v': '', 'k': 'K2', 'm': 'b'}, {'bid': '14', 'v': 't', 'k': '', 'm': 'a'}]


def crafted_cases(d):
    """deterministic documents that every run evaluates: each nesting shape of the property's quantifier at least once"""
    A, B = 't0.csv', 't1.csv'
    sA = _tpl('http://ex.org/a/', 'id')
    sB = _tpl('http://ex.org/b/', 'bid')
    elemA = lambda i, asserted=False: _tm(i, A, sA, [('p', [_ref('n')], []), ('p2', [_tpl('http://ex.org/k/', 'k')], [])],
                                           asserted=asserted, classes=['http://ex.org/C'], graphs=[_const('http://ex.org/g/in')])
    elemA2 = lambda i: _tm(i, A, _tpl('http://ex.org/a2/', 'k2'), [('r', [_ref('g', lang='en')], [_tpl('http://ex.org/g/', 'g')])], asserted=False)
    elemB = lambda i, asserted=False: _tm(i, B, sB, [('pb', [_ref('v')], []), ('pb2', [_tpl('http://ex.org/m/', 'm')], [])], asserted=asserted)
    docs = []
    # quoted subject, same rows; the quoted map has two POMs, a class and a graph of its own; the quoting map a graph
    docs.append(('subject/no-join', [elemA(0), _tm(1, A, _q(0), [('q', [_ref('k')], [])], graphs=[_const('http://ex.org/g/out')])]))
    # quoted object, the quoted map is asserted itself (contributes both)
    docs.append(('object/no-join/asserted-quoted', [elemA(0, asserted=True), _tm(1, A, sA, [('q', [_q(0)], [])])]))
    # both positions quoted (keep_subject), different quoted maps
    docs.append(('both/no-join', [elemA(0), elemA2(1), _tm(2, A, _q(0), [('q', [_q(1)], [])])]))
    # depth 2 with both positions quoted at both levels (keep_subject per nest level)
    docs.append(('both/both/depth2', [elemA(0), elemA2(1), _tm(2, A, _q(1), [('q1', [_q(0)], [])], asserted=False),
                                      _tm(3, A, _q(0), [('q2', [_q(2)], [])])]))
    # depth 3 chain through subject positions
    docs.append(('depth3/subject-chain', [elemA2(0), _tm(1, A, _q(0), [('q1', [_ref('id')], [])], asserted=False),
                                          _tm(2, A, _q(1), [('q2', [_const('http://ex.org/o/x')], [])], asserted=False),
                                          _tm(3, A, _q(2), [('q3', [_ref('k2')], [])])]))
    # join, one condition, duplicate keys on both sides, NULL keys
    docs.append(('subject/join1', [elemB(0), _tm(1, A, _q(0, ('k', 'k')), [('q', [_ref('id')], [])])]))
    docs.append(('object/join1', [elemB(0), _tm(1, A, sA, [('q', [_q(0, ('k', 'k'))], [_const('http://ex.org/g/out')])])]))
    # join, two conditions
    docs.append(('object/join2', [elemB(0), _tm(1, A, sA, [('q', [_q(0, ('k', 'k'), ('k2', 'm'))], [])])]))
    # join then no-join below it, and no-join then join below it
    docs.append(('join-over-nojoin', [elemB(0), _tm(1, B, _q(0), [('q1', [_ref('m')], [])], asserted=False),
                                      _tm(2, A, _q(1, ('k', 'k')), [('q2', [_ref('id')], [])])]))
    docs.append(('nojoin-over-join', [elemB(0), _tm(1, A, _q(0, ('k', 'k')), [('q1', [_ref('n')], [])], asserted=False),
                                      _tm(2, A, sA, [('q2', [_q(1)], [])])]))
    # self-join on the same logical source
    docs.append(('self-join', [elemA2(0), _tm(1, A, _q(0, ('k', 'k')), [('q', [_ref('id')], [])])]))
    # quoted subject with join + quoted object without
    docs.append(('subject-join+object-nojoin', [elemB(0), elemA2(1), _tm(2, A, _q(0, ('k', 'k')), [('q', [_q(1)], [])])]))
    out = []
    for i, (name, tms) in enumerate(docs):
        cd = os.path.join(d, f'k{i}')
        os.makedirs(cd, exist_ok=True)
        inp = {'doc': {'tms': tms}, 'tables': {A: T0_ROWS, B: T1_ROWS}, 'columns': {A: T0_COLS, B: T1_COLS}}
        out.append(build_case(cd, inp, name=name))
    return out


def cyclic_doc(path):
    """two triples maps with two predicate-object maps each, quoting each other: RML-star forbids it"""
    A = path
    sA = _tpl('http://ex.org/a/', 'id')
    return {'tms': [_tm(0, A, _q(1), [('p', [_ref('n')], []), ('p2', [_ref('k')], [])]),
                    _tm(1, A, sA, [('q', [_q(0)], []), ('q2', [_q(0)], [])])]}
