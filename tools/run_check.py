import importlib
import os
import sys

sys.path.insert(0, os.path.dirname(os.path.abspath(__file__)))
import vlib  # noqa: E402


def main():
    if len(sys.argv) < 2:
        print('usage: check <Cxx> quick|thorough | check <Cxx> --replay <file>')
        return 2
    prop = sys.argv[1]
    pm = importlib.import_module(f'props.{prop}')
    return vlib.main_check(pm, sys.argv[2:])


if __name__ == '__main__':
    sys.exit(main())
